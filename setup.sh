#!/bin/bash
# Offline set-up: third-party helpers for the harness go into the git-ignored .deps/
set -e
HERE="$(cd "$(dirname "${BASH_SOURCE[0]}")" && pwd)"
cd "$HERE"
export PIP_NO_INDEX=1
if [ ! -d .deps/mpmath ] || [ ! -d .deps/icontract ]; then
  /venv/bin/pip install --quiet --no-index --find-links /opt/veriftools/wheels --target "$HERE/.deps" mpmath icontract
fi
/venv/bin/python -c "import sys; sys.path.insert(0,'$HERE/.deps'); import mpmath, icontract; print('deps ok', mpmath.__version__)"
