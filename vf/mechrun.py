"""Driving the shipped mechanisms under the paired-execution monitor (C05 / C06)."""
import contextlib
import itertools
import math

import numpy as np

from . import env, gen, models, privacy, oracles
from .models import quiet

MECHS = ['mst', 'aim', 'mwem', 'adagrid']


def gen_dataset(rng):
    d = int(rng.randint(3, 6))
    attrs = ['col%d' % i for i in range(d)]
    shape = [int(gen.pick(rng, [2, 2, 3, 4, 6])) for _ in attrs]
    # round numbers are included on purpose: add/remove-one neighbours then straddle any threshold placed on them
    N = int(gen.pick(rng, [0, 1, 2, 5, 10, 20, 50, 60, 100, 150, 300]))   # 0 / 1: the empty table is somebody's neighbour
    cols = []
    for s in shape:
        skew = gen.pick(rng, ['uniform', 'skewed', 'point'])
        if skew == 'uniform':
            p = np.ones(s) / s
        elif skew == 'skewed':
            p = rng.gamma(0.3, size=s) + 1e-3
            p /= p.sum()
        else:
            p = np.full(s, 0.02 / max(1, s - 1))
            p[int(rng.randint(s))] = 0.98
            p /= p.sum()
        cols.append(rng.choice(s, size=N, p=p))
    rows = np.array(cols).T.reshape(N, d).astype(int)
    return attrs, shape, rows


def neighbours(rng, shape, rows, bounded, k):
    """k neighbouring record sets: add-one / remove-one (unbounded) or replace-one (bounded)."""
    N = rows.shape[0]
    out = []
    full = np.ravel_multi_index(tuple(rows.T), tuple(shape)) if N else np.zeros(0, dtype=int)
    counts = np.bincount(full, minlength=int(np.prod(shape)))
    for j in range(k):
        how = gen.pick(rng, ['hostile', 'random'])
        if bounded and N == 0:
            break       # replace-one adjacency: the empty table has no neighbour
        if bounded:
            i = int(rng.randint(N)) if how == 'random' else int(np.argmin(counts[full] + rng.rand(N) * 0.5))
            if how == 'hostile':
                cell = int(np.argmin(counts + rng.rand(counts.size) * 0.5))      # move it to an empty / rare cell
                new = np.array(np.unravel_index(cell, tuple(shape)))
            else:
                new = np.array([int(rng.randint(s)) for s in shape])
            if (new == rows[i]).all():
                new[0] = (new[0] + 1) % shape[0]
            r2 = rows.copy()
            r2[i] = new
            out.append(('replace', r2))
        else:
            op = 'add' if (N == 0 or rng.rand() < 0.5) else 'remove'
            if op == 'add':
                if how == 'hostile':
                    cell = int(np.argmin(counts + rng.rand(counts.size) * 0.5)) if rng.rand() < 0.5 else int(np.argmax(counts))
                    new = np.array(np.unravel_index(cell, tuple(shape)))
                else:
                    new = np.array([int(rng.randint(s)) for s in shape])
                out.append(('add', np.vstack([rows, new[None, :]])))
            else:
                i = int(rng.randint(N)) if how == 'random' else int(np.argmin(counts[full] + rng.rand(N) * 0.5))
                out.append(('remove', np.delete(rows, i, axis=0)))
    return out


def gen_config(rng, mech, attrs, shape):
    eps = float(gen.pick(rng, [0.1, 1.0, 10.0]))
    delta = float(gen.pick(rng, [1e-12, 1e-9, 1e-6, 1e-3]))
    # another mechanism ran earlier in the process with the same epsilon and another delta (its budget conversion happened)
    prior_delta = gen.pick(rng, [None, 1e-9, 1e-12, 1e-6])
    # a Domain built from an array (df.max() + 1) carries numpy integers as sizes; one built from json carries ints
    cfg = dict(mech=mech, eps=eps, delta=delta, bounded=False, accounting='zcdp', np_sizes=bool(rng.rand() < 0.3),
               prior_delta=(None if prior_delta == delta else prior_delta))
    pairs = list(itertools.combinations(attrs, 2))
    if mech == 'aim':
        if rng.rand() < 0.5:
            # a workload that leaves some attributes of the domain untouched
            sub = [attrs[i] for i in rng.permutation(len(attrs))[:int(rng.randint(2, len(attrs)))]]
            pairs = list(itertools.combinations(sorted(sub, key=attrs.index), 2))
        k = int(rng.randint(1, min(len(pairs), 5) + 1))
        W = [pairs[i] for i in rng.permutation(len(pairs))[:k]]
        if len(attrs) >= 3 and rng.rand() < 0.4:
            W.append(tuple(attrs[:3]))
        wts = [float(gen.pick(rng, [1.0, 1.0, 0.5, 2.0, 3.0])) for _ in W]
        n1 = len(set(a for cl in W for a in cl))
        cfg.update(workload=list(zip(W, wts)), rounds=gen.pick(rng, [None, None, int(2 * n1 + 2), int(2 * len(attrs) + 3), int(30 * len(attrs)), int(n1), int(n1 + 1)]),   # n1: the one-way stage alone takes 0.9 rho
                   max_model_size=float(gen.pick(rng, [80, 80, 0.001])), pass_prng=bool(rng.rand() < 0.3))
    elif mech == 'mwem':
        noise = gen.pick(rng, ['gaussian', 'gaussian', 'laplace'])
        cfg.update(noise=noise, bounded=bool(rng.rand() < 0.5), rounds=gen.pick(rng, [None, 2, 8]),
                   workload=(None if rng.rand() < 0.6 else [pairs[i] for i in rng.permutation(len(pairs))[:max(1, len(pairs) // 2)]]),
                   alpha=float(gen.pick(rng, [0.9, 0.9, 0.5, 0.99])), maxsize_mb=float(gen.pick(rng, [25, 25, 0.0005])))
        cfg['accounting'] = 'pure' if noise == 'laplace' else 'zcdp'
    elif mech == 'adagrid':
        cfg.update(threshold=float(gen.pick(rng, [5.0, 1.0, 0.0])), targets=([] if rng.rand() < 0.6 else [attrs[int(rng.randint(len(attrs)))]]),
                   split=gen.pick(rng, [None, [0.1, 0.1, 0.8], [1, 1, 1], [0.5, 0.3, 0.2]]), warm_start=bool(rng.rand() < 0.5))
    return cfg


class Harness:
    """Installs the monitor and the environment adapters once per worker process."""

    def __init__(self, cap):
        self.cap = cap
        self.mon = privacy.Monitor()
        self.mods = {}
        self.installed = False
        self.on_model = None   # optional observer of every model returned by FactoredInference.estimate

    def install(self):
        if self.installed:
            return
        env.setup()
        env.install_sparse_T_setter()
        m = models.mbi()
        self.mods = dict(mechanism=env.load_mechanism('mechanism'), mst=env.load_mechanism('mst'), aim=env.load_mechanism('aim'),
                         mwem=env.load_mechanism('mwem_pgm'), adagrid=env.load_mechanism('adaptive_grid'))
        sites = [(self.mods['mechanism'].Mechanism, 'exponential_mechanism'), (self.mods['mst'], 'exponential_mechanism'),
                 (self.mods['adagrid'], 'exponential_mechanism'), (self.mods['mwem'], 'worst_approximated')]
        self.mon.install(sites)
        FI = m.FactoredInference
        orig = FI.estimate
        cap = self.cap
        harness = self

        def estimate(eng, *a, **k):
            saved = eng.iters
            eng.iters = min(eng.iters, harness.cap)
            try:
                model = orig(eng, *a, **k)
            finally:
                eng.iters = saved
            if harness.on_model is not None:
                harness.on_model(eng, model)
            return model

        FI.estimate = estimate
        self._restore = (FI, orig)
        self.installed = True

    def run(self, cfg, attrs, shape, rows, mode, private_seed, post_seed, replay=None, inject='sampled'):
        """One execution.  Returns dict(events, output (ndarray of records or None), error, domain_ok)."""
        import pandas as pd
        m = models.mbi()
        dom = m.Domain(list(attrs), [np.int64(s_) for s_ in shape] if cfg.get('np_sizes') else [int(s_) for s_ in shape])
        df = pd.DataFrame(np.asarray(rows).reshape(-1, len(attrs)), columns=list(attrs)).astype(int)
        data = m.Dataset(df, dom)
        mon = self.mon
        if mode == 'record' and cfg.get('prior_delta'):
            env.load_mechanism('cdp2adp').cdp_rho(cfg['eps'], cfg['prior_delta'])
        mon.start(mode, private_seed, post_seed, replay=replay, inject=inject)
        out = dict(events=None, output=None, error=None, error_type=None, mismatch=None, domain_ok=None)
        try:
            with quiet(), np.errstate(all='ignore'):
                synth = self._call(cfg, data)
            out['output'] = np.asarray(synth.df[list(attrs)].values) if list(synth.df.columns) == list(attrs) else None
            out['columns'] = list(synth.df.columns)
            out['domain_ok'] = (tuple(synth.domain.attrs) == tuple(attrs) and tuple(synth.domain.shape) == tuple(shape))
        except privacy.ReplayMismatch as e:
            out['mismatch'] = str(e)
        except Exception as e:  # the mechanism itself failed (e.g. AIM with too few rounds: NaN probabilities)
            import traceback
            out['error'] = traceback.format_exc()[-1500:]
            out['error_type'] = type(e).__name__
        finally:
            mon.stop()
        out['events'] = list(mon.events)
        out['unreleased'] = mon.unreleased()
        out['opaque'] = mon.opaque_uses
        return out

    def _call(self, cfg, data):
        mech = cfg['mech']
        if mech == 'mst':
            return self.mods['mst'].MST(data, cfg['eps'], cfg['delta'])
        if mech == 'aim':
            kw = dict(max_model_size=cfg['max_model_size'])
            if cfg['rounds'] is not None:
                kw['rounds'] = cfg['rounds']
            if cfg.get('pass_prng'):
                kw['prng'] = np.random      # a caller-supplied generator (the patched numpy.random module itself)
            a = self.mods['aim'].AIM(cfg['eps'], cfg['delta'], **kw)
            return a.run(data, list(cfg['workload']))
        if mech == 'mwem':
            return self.mods['mwem'].mwem_pgm(data, cfg['eps'], cfg['delta'], workload=cfg['workload'], rounds=cfg['rounds'],
                                              maxsize_mb=cfg['maxsize_mb'], pgm_iters=self.cap, noise=cfg['noise'], bounded=cfg['bounded'],
                                              alpha=cfg['alpha'])
        if mech == 'adagrid':
            return self.mods['adagrid'].adagrid(data, cfg['eps'], cfg['delta'], cfg['threshold'], targets=list(cfg['targets']),
                                                split_strategy=cfg['split'], iters=self.cap, warm_start=cfg['warm_start'])
        raise ValueError(mech)


def budget(cfg):
    if cfg['accounting'] == 'pure':
        return cfg['eps']
    return oracles.rho_budget(cfg['eps'], cfg['delta'])


def same_log(a, b):
    if len(a) != len(b):
        return False
    for x, y in zip(a, b):
        if privacy._skel(x) != privacy._skel(y):
            return False
        if x['type'] == 'release' and not (np.array_equal(x['y'], y['y']) and np.array_equal(x['x'], y['x'])):
            return False
        if x['type'] == 'select' and not np.array_equal(x['p'], y['p']):
            return False
    return True


INJECTS = ['sampled', 'sampled', 'sampled', 'zero_noise', 'five_sigma', 'least_likely', 'uniform_selection']


def pair_case(rng, tier, idx, n_neighbours=3):
    mech = MECHS[idx % len(MECHS)]
    attrs, shape, rows = gen_dataset(rng)
    cfg = gen_config(rng, mech, attrs, shape)
    nb = neighbours(rng, shape, rows, cfg['bounded'], n_neighbours + (3 if mech == 'aim' else 0))   # AIM's annealing test sits on a threshold: more pairs
    return dict(mech=mech, cfg=cfg, attrs=attrs, shape=shape, rows=rows, neighbours=nb, inject=gen.pick(rng, INJECTS),
                private_seed=int(rng.randint(2 ** 31)), post_seed=int(rng.randint(2 ** 31)),
                cap=int(gen.pick(rng, [25, 40, 60])) if tier == 'quick' else int(gen.pick(rng, [40, 100, 300])))


def describe_pair(case):
    cfg = dict(case['cfg'])
    if 'workload' in cfg and cfg['workload'] is not None:
        cfg['workload'] = [list(w) if not isinstance(w[0], tuple) else [list(w[0]), w[1]] for w in cfg['workload']]
    return dict(mechanism=case['mech'], config=cfg, attrs=case['attrs'], shape=case['shape'], records=int(case['rows'].shape[0]),
                neighbours=[k for k, _ in case['neighbours']], outcome_injection=case['inject'], inference_iteration_cap=case['cap'])


_H = {}


def harness(cap):
    h = _H.get('h')
    if h is None:
        h = Harness(cap)
        h.install()
        _H['h'] = h
    h.cap = cap
    return h
