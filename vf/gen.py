"""Workload generators shared by the checks (plain data only: names, shapes, arrays)."""
import itertools

import numpy as np

NAMES = ['a', 'bb', 'c', 'd4', 'e', 'f_', 'g', 'hh', 'i', 'j', 'k', 'l']


def pick(rng, seq):
    return seq[int(rng.randint(len(seq)))]


def domain(rng, dmin=1, dmax=7, sizes=(1, 2, 3, 4), max_cells=50000, names=None):
    """Attribute names in shuffled order with sizes drawn from ``sizes``."""
    while True:
        d = int(rng.randint(dmin, dmax + 1))
        pool = list(names or NAMES)[:max(d, 1)]
        attrs = [pool[i] for i in rng.permutation(len(pool))[:d]]
        shape = [int(pick(rng, list(sizes))) for _ in attrs]
        if int(np.prod(shape)) <= max_cells:
            return attrs, shape


def shuffled(rng, t):
    t = list(t)
    return tuple(t[i] for i in rng.permutation(len(t)))


CLIQUE_CLASSES = ['empty', 'chain', 'star', 'cycle', 'grid', 'components', 'nested', 'duplicated',
                  'permuted', 'hyper', 'single', 'full']


def cliques(rng, attrs, cls=None, max_clique_cells=None, shape=None):
    """A clique collection of the given structural class over (a subset of) attrs."""
    attrs = list(attrs)
    d = len(attrs)
    cls = cls or pick(rng, CLIQUE_CLASSES)
    out = []
    if cls == 'empty' or d == 0:
        out = []
    elif d == 1:
        out = [(attrs[0],)] * int(rng.randint(1, 3))
    elif cls == 'chain':
        out = [(attrs[i], attrs[i + 1]) for i in range(d - 1)]
    elif cls == 'star':
        c = int(rng.randint(d))
        out = [(attrs[c], attrs[i]) for i in range(d) if i != c]
    elif cls == 'cycle':
        out = [(attrs[i], attrs[(i + 1) % d]) for i in range(d)] if d >= 3 else [(attrs[0], attrs[1])]
    elif cls == 'grid':
        w = 2 if d < 6 else 3
        cells = [attrs[i:i + w] for i in range(0, d, w)]
        for r, row in enumerate(cells):
            for c in range(len(row) - 1):
                out.append((row[c], row[c + 1]))
            if r + 1 < len(cells):
                for c in range(min(len(row), len(cells[r + 1]))):
                    out.append((row[c], cells[r + 1][c]))
    elif cls == 'components':
        k = max(1, d // 2)
        out = [(attrs[i], attrs[i + 1]) for i in range(k - 1)]
        out += [(attrs[i], attrs[i + 1]) for i in range(k, d - 1)]
        if not out:
            out = [(attrs[0],)]
    elif cls == 'nested':
        k = min(d, int(rng.randint(2, 4)))
        big = tuple(attrs[:k])
        out = [big, big[:-1], (big[0],)]
        if d > k:
            out.append((attrs[k - 1], attrs[k]))
    elif cls == 'duplicated':
        base = [(attrs[i], attrs[i + 1]) for i in range(d - 1)]
        out = base + [base[int(rng.randint(len(base)))], tuple(reversed(base[0]))]
    elif cls == 'permuted':
        for _ in range(int(rng.randint(1, d + 1))):
            k = int(rng.randint(1, min(d, 3) + 1))
            out.append(tuple(attrs[i] for i in rng.permutation(d)[:k]))
        out = [tuple(reversed(sorted(c))) if rng.rand() < 0.5 else c for c in out]
    elif cls == 'hyper':
        for _ in range(int(rng.randint(1, d + 2))):
            k = int(rng.randint(1, min(d, 4) + 1))
            out.append(tuple(attrs[i] for i in rng.permutation(d)[:k]))
    elif cls == 'single':
        out = [(attrs[int(rng.randint(d))],)]
    elif cls == 'full':
        out = [tuple(attrs[:min(d, 4)])]
    if rng.rand() < 0.3:
        out = [shuffled(rng, c) for c in out]
    if rng.rand() < 0.3 and out:
        out = [out[i] for i in rng.permutation(len(out))]
    return cls, out


POT_SCALES = [0.1, 1.0, 10.0, 1e3, 1e5]


def potential(rng, shape, scale=None, ninf=None):
    """Log-potential with optional -inf entries.  ninf in {None,'random','slice','allbutone'}."""
    scale = pick(rng, POT_SCALES) if scale is None else scale
    arr = rng.normal(0, 1, size=tuple(shape)) * scale
    if ninf == 'random':
        mask = rng.rand(*arr.shape) < 0.3
        arr[mask] = -np.inf
    elif ninf == 'slice' and arr.ndim >= 1 and arr.size > 1:
        ax = int(rng.randint(arr.ndim))
        if arr.shape[ax] > 1:
            k = int(rng.randint(arr.shape[ax]))
            idx = [slice(None)] * arr.ndim
            idx[ax] = k
            arr[tuple(idx)] = -np.inf
    elif ninf == 'allbutone' and arr.size > 1:
        keep = np.unravel_index(int(rng.randint(arr.size)), arr.shape) if arr.ndim else ()
        v = arr[keep]
        arr[...] = -np.inf
        arr[keep] = v
    return arr


def plant_feasible(rng, attrs, shape, pots):
    """Make sure at least one joint assignment has finite log-mass under all potentials
    (so that the distribution exists): pick a random assignment, replace -inf there."""
    assign = {a: int(rng.randint(n)) for a, n in zip(attrs, shape)}
    for cl, arr in pots:
        idx = tuple(assign[a] for a in cl)
        if not np.isfinite(arr[idx]):
            arr[idx] = float(rng.normal())
    return assign


def ordered_subsets(attrs, max_size=None):
    attrs = list(attrs)
    out = []
    for k in range(0, (max_size if max_size is not None else len(attrs)) + 1):
        for c in itertools.combinations(attrs, k):
            out.append(c)
    return out


TOTALS = [1e-3, 1.0, 7.5, 1e6]
