"""Independent analytic-Gaussian calibration (Balle & Wang 2018).

mechanisms/mechanism.py calls privacy_calibrator.ana_gaussian_mech(eps, delta)['sigma']
for the noise multiplier of a sensitivity-1 Gaussian mechanism.
"""
import math
from scipy.stats import norm
from scipy.optimize import brentq


def _delta(eps, sigma):
    return norm.cdf(0.5 / sigma - eps * sigma) - math.exp(eps) * norm.cdf(-0.5 / sigma - eps * sigma)


def ana_gaussian_mech(epsilon, delta, **kw):
    s = brentq(lambda s: _delta(epsilon, s) - delta, 1e-6, 1e6)
    return {'sigma': s}
