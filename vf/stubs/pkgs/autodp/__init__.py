# Harness-side stand-in for the `autodp` package (not installed in this sandbox).
# Only what mechanisms/mechanism.py imports is provided.
