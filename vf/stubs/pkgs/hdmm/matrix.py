from scipy import sparse


def Identity(n):
    return sparse.eye(n, format='csr')
