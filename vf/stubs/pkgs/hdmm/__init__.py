# Harness-side stand-in for `hdmm` (not installed); AIM only needs hdmm.matrix.Identity.
