# Placeholder so that mbi/mixture_inference.py can be imported for its pure-numpy
# estimate_total(); nothing that needs real jax is ever called by the harness.
def vjp(*a, **k):
    raise NotImplementedError('jax is not available in this sandbox')
