def softmax(*a, **k):
    raise NotImplementedError('jax is not available in this sandbox')
