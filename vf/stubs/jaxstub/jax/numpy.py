def __getattr__(name):
    raise NotImplementedError('jax is not available in this sandbox')
