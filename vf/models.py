"""Helpers that build objects of the repository under test from plain case data, and read
results back as (attribute names, ndarray) pairs.  Imports of ``mbi`` are deferred so that
vf.env.setup() decides where the code comes from."""
import contextlib
import io

import numpy as np

from . import env, oracles


def mbi():
    env.setup()
    import mbi as _m
    env.assert_repo_origin(_m)
    return _m


@contextlib.contextmanager
def quiet():
    """The repository prints progress lines; keep shard logs small."""
    buf = io.StringIO()
    with contextlib.redirect_stdout(buf):
        yield buf


def make_domain(attrs, shape):
    return mbi().Domain(list(attrs), [int(s) for s in shape])


def make_model(attrs, shape, cliques, total=1.0, elim=None, np_seed=None, late_total=None):
    """late_total: True builds the model with another total and assigns model.total afterwards (the repository's own
    tests and LocalInference do that); None decides from np_seed so that a third of the callers' cases do it."""
    m = mbi()
    if np_seed is not None:
        np.random.seed(int(np_seed) % (2 ** 32))
    dom = make_domain(attrs, shape)
    order = list(elim) if isinstance(elim, (list, tuple)) else elim
    if late_total is None:
        late_total = np_seed is not None and int(np_seed) % 3 == 0
    if late_total:
        model = m.GraphicalModel(dom, [tuple(c) for c in cliques], total=(1.0 if total != 1.0 else 13.0), elimination_order=order)
        model.total = total
        return model
    return m.GraphicalModel(dom, [tuple(c) for c in cliques], total=total, elimination_order=order)


def place_potentials(model, attrs, shape, pots, rng=None, permute_prob=0.0):
    """CliqueVector over model.cliques holding the sum of the source potentials ``pots``
    (list of (clique_attrs, ndarray)); each source goes to one containing model clique.
    Done with the harness's own axis alignment, not with CliqueVector.combine.
    With permute_prob > 0 some factors are built with their axes in a non-canonical order."""
    m = mbi()
    attrs = list(attrs)
    shape = list(shape)
    acc = {}
    orders = {}
    for cl in model.cliques:
        order = list(cl)
        if rng is not None and permute_prob > 0 and rng.rand() < permute_prob and len(order) > 1:
            order = [order[i] for i in rng.permutation(len(order))]
        orders[cl] = order
        acc[cl] = np.zeros([shape[attrs.index(a)] for a in order])
    for src, arr in pots:
        host = None
        for cl in model.cliques:
            if set(src) <= set(cl):
                host = cl
                break
        if host is None:
            raise ValueError('source clique %r not covered by model cliques %r' % (src, model.cliques))
        o = orders[host]
        sub_shape = [shape[attrs.index(a)] for a in o]
        with np.errstate(invalid='ignore'):
            acc[host] = acc[host] + oracles.align(arr, src, o, sub_shape)
    out = {}
    for cl in model.cliques:
        dom = model.domain.project(orders[cl])
        out[cl] = m.Factor(dom, np.array(acc[cl], dtype=float))
    return m.CliqueVector(out)


def factor_parts(f):
    """(attribute tuple, ndarray) of a repository Factor."""
    return tuple(f.domain.attrs), np.asarray(f.values, dtype=float)


def close(a, b, rtol, atol):
    a = np.asarray(a, dtype=float)
    b = np.asarray(b, dtype=float)
    if a.shape != b.shape:
        return False
    if not (np.isfinite(a).all() and np.isfinite(b).all()):
        return False
    return bool(np.all(np.abs(a - b) <= atol + rtol * np.abs(b)))


def maxdiff(a, b):
    a = np.asarray(a, dtype=float)
    b = np.asarray(b, dtype=float)
    if a.shape != b.shape:
        return float('inf')
    with np.errstate(invalid='ignore'):
        d = np.abs(a - b)
    return float(np.nanmax(d)) if d.size else 0.0


def random_linear_extension(tree_edges, rng):
    """A uniformly-random-ish topological order of the message dependency DAG of a tree:
    message (i,j) may be sent once every (k,i), k != j, has been sent.  Computed here from
    the undirected tree edges alone."""
    nbrs = {}
    for a, b in tree_edges:
        nbrs.setdefault(a, set()).add(b)
        nbrs.setdefault(b, set()).add(a)
    msgs = [(a, b) for a, b in tree_edges] + [(b, a) for a, b in tree_edges]
    deps = {(i, j): {(k, i) for k in nbrs[i] if k != j} for (i, j) in msgs}
    done, order = set(), []
    pending = list(msgs)
    while pending:
        ready = [m for m in pending if deps[m] <= done]
        if not ready:
            raise RuntimeError('cyclic message dependencies: not a tree')
        m = ready[int(rng.randint(len(ready)))]
        order.append(m)
        done.add(m)
        pending.remove(m)
    return order


def measurement_loss(model, meas):
    """0.5 * sum ||(Q m_proj - y)/sigma||^2 recomputed from model.project answers."""
    tot = 0.0
    for Q, y, s, proj in meas:
        f = model.project(tuple(proj))
        at, v = factor_parts(f)
        v = oracles.marginal(v, list(at), list(proj)) if tuple(at) != tuple(proj) else v
        x = v.reshape(-1)
        Qd = oracles.dense(Q)
        r = (x if Qd is None else Qd @ x) - np.asarray(y, dtype=float)
        tot += 0.5 * float(r @ r) / float(s) ** 2
    return tot
