"""Helpers shared by the estimation checks (C03, C08, C10, C13, C18)."""
import numpy as np

from . import models, measure, oracles
from .models import quiet


def estimate(dom, tuples, total, solver, iters, zeros=None, warm_start=False, elim=None, engine=None, options=None,
             callback=None, log=False):
    """One FactoredInference.estimate call on a fresh (or given) engine; returns (engine, model)."""
    m = models.mbi()
    if engine is None:
        kw = dict(iters=iters, warm_start=warm_start, elim_order=elim, log=log)
        if zeros is not None:
            kw['structural_zeros'] = zeros
        engine = m.FactoredInference(dom, **kw)
    else:
        engine.iters = iters
    kwargs = {}
    if options is not None:
        kwargs['options'] = options
    if callback is not None:
        kwargs['callback'] = callback
    with quiet(), np.errstate(all='ignore'):
        model = engine.estimate(list(tuples), total=total, engine=solver, **kwargs)
    return engine, model


def variant(np_seed, attrs):
    """Non-default spellings of one and the same estimation problem, derived from the case's seed:
    a caller-given elimination order (1 in 4), a callback that only reads what it is handed
    (1 in 4; it must be called, and must not change the result), and explicit default options
    passed by the caller (1 in 5).  Returns (kwargs for estimate(), tags, callback log)."""
    import numpy as _np
    rng = _np.random.RandomState((int(np_seed) * 2654435761 + 12345) % (2 ** 32))
    kw, tags, seen = {}, [], []
    if rng.rand() < 0.25:
        kw['elim'] = [attrs[i] for i in rng.permutation(len(attrs))]
        tags.append('opt:elim_order')
    if rng.rand() < 0.25:
        def cb(x, _seen=seen):
            _seen.append(type(x).__name__)
        kw['callback'] = cb
        tags.append('opt:callback')
    if rng.rand() < 0.2:
        kw['options'] = {}
        tags.append('opt:options_dict')
    return kw, tags, seen


def optimum(attrs, shape, meas_plain, total):
    """Certified optimum of the squared loss over all nonnegative tables with the given total.
    Returns (f_upper, gap, f_uniform, p, adequate): f* lies in [f_upper - gap, f_upper].
    ``adequate`` says the certificate is tight enough for the comparisons made with it: the gap
    is below 1e-9 relative to the loss, or below 1e-6 of the uniform-to-optimum distance (the
    Frank-Wolfe gap is limited by the rounding of A^T(Ap-b), which scales with ||b||^2)."""
    A, b = oracles.full_system(attrs, shape, meas_plain)
    n = int(np.prod(shape))
    p, f, gap = oracles.simplex_ls(A, b, total)
    fu = oracles.ls_loss(A, b, np.ones(n) * float(total) / n)
    adequate = gap <= max(1e-9 * max(1.0, f), 1e-6 * max(fu - f, 0.0))
    return f, gap, fu, p, adequate


def max_abs_potential(model):
    mx = 0.0
    pots = getattr(model, 'potentials', None)
    if pots is None:
        return 0.0
    for cl in pots:
        v = np.asarray(pots[cl].values, dtype=float)
        fin = v[np.isfinite(v)]
        if fin.size:
            mx = max(mx, float(np.abs(fin).max()))
        if np.isnan(v).any() or (v == np.inf).any():
            return float('inf')
    return mx
