"""Shared plumbing: per-case context, hashing, case description, watchdog."""
import hashlib
import math
import signal
import traceback
from collections import Counter

import numpy as np


class CaseTimeout(Exception):
    pass


class Ctx:
    """Collects what the monitors observed while one case runs."""

    def __init__(self, prop_id, tier='quick'):
        self.prop_id = prop_id
        self.tier = tier
        self.failures = []
        self.monitors = Counter()
        self.stats = {}
        self.trivial = False
        self.tags = Counter()
        self.info = {}
        # for checks whose cases are batches of many small evaluations (COUNT_UNITS = True)
        self.units = 0            # sub-evaluations performed in this case
        self.exhaustive_units = 0  # of those, enumerated exhaustively (distinct by construction)
        self.unit_sigs = set()     # content hashes of the sampled (non-enumerated) sub-evaluations

    # -- monitors ---------------------------------------------------------
    def mon(self, name, n=1):
        self.monitors[name] += n

    def check(self, ok, monitor, kind, detail, **data):
        """One evaluation of a named monitor; ``ok`` false records a failure."""
        self.monitors[monitor] += 1
        if not ok:
            self.fail(kind, detail() if callable(detail) else detail, **data)
        return bool(ok)

    def fail(self, kind, detail, **data):
        if len(self.failures) < 20:
            self.failures.append({'kind': kind, 'detail': str(detail)[:2000], 'data': _plain(data)})

    def stat(self, name, value):
        try:
            v = float(value)
        except Exception:
            return
        if math.isnan(v):
            return
        s = self.stats.get(name)
        if s is None:
            self.stats[name] = [v, v, 1]
        else:
            s[0] = min(s[0], v)
            s[1] = max(s[1], v)
            s[2] += 1

    def tag(self, name, n=1):
        """Workload-class counter (which generator classes / branches were exercised)."""
        self.tags[name] += n


def merge_stats(a, b):
    for k, s in b.items():
        if k in a:
            a[k][0] = min(a[k][0], s[0])
            a[k][1] = max(a[k][1], s[1])
            a[k][2] += s[2]
        else:
            a[k] = list(s)
    return a


def _plain(o, depth=0):
    """JSON-able rendering (arrays summarised when large)."""
    if depth > 6:
        return repr(o)[:200]
    if isinstance(o, (str, bool)) or o is None:
        return o
    if isinstance(o, (int, np.integer)):
        return int(o)
    if isinstance(o, (float, np.floating)):
        f = float(o)
        if math.isnan(f) or math.isinf(f):
            return repr(f)
        return f
    if isinstance(o, np.ndarray):
        if o.size <= 64:
            return _plain(o.tolist(), depth + 1)
        return {'ndarray_shape': list(o.shape), 'dtype': str(o.dtype),
                'head': _plain(o.ravel()[:8].tolist(), depth + 1)}
    if isinstance(o, dict):
        return {str(k): _plain(v, depth + 1) for k, v in list(o.items())[:60]}
    if isinstance(o, (list, tuple, set, frozenset)):
        return [_plain(v, depth + 1) for v in list(o)[:60]]
    if hasattr(o, 'toarray') and hasattr(o, 'shape'):
        return {'sparse_shape': list(o.shape)}
    return repr(o)[:200]


plain = _plain


def _feed(h, o):
    if isinstance(o, np.ndarray):
        h.update(b'A' + str(o.shape).encode() + str(o.dtype).encode())
        h.update(np.ascontiguousarray(o).tobytes())
    elif isinstance(o, dict):
        h.update(b'D')
        for k in sorted(o, key=repr):
            if isinstance(k, str) and k.startswith('_'):
                continue
            _feed(h, k)
            _feed(h, o[k])
    elif isinstance(o, (list, tuple)):
        h.update(b'L')
        for v in o:
            _feed(h, v)
    elif isinstance(o, (set, frozenset)):
        h.update(b'S')
        for v in sorted(o, key=repr):
            _feed(h, v)
    elif hasattr(o, 'toarray') and hasattr(o, 'shape'):
        h.update(b'P')
        _feed(h, np.asarray(o.toarray()))
    elif isinstance(o, (float, np.floating)):
        h.update(b'F' + repr(float(o)).encode())
    else:
        h.update(b'O' + repr(o).encode())


def digest(o):
    """Content hash of a (nested) case; keys starting with '_' are ignored."""
    h = hashlib.sha1()
    _feed(h, o)
    return h.hexdigest()[:16]


def array_digest(a):
    return hashlib.sha256(np.ascontiguousarray(a).tobytes() + str(a.shape).encode()).hexdigest()


class watchdog:
    """Wall-clock guard around one case.  Firing is *inconclusive*, never a violation."""

    def __init__(self, seconds):
        self.seconds = max(1, int(seconds))

    def _raise(self, signum, frame):
        raise CaseTimeout('case exceeded %ds watchdog' % self.seconds)

    def __enter__(self):
        self.old = signal.signal(signal.SIGALRM, self._raise)
        signal.alarm(self.seconds)

    def __exit__(self, *exc):
        signal.alarm(0)
        signal.signal(signal.SIGALRM, self.old)
        return False


def tb_info(exc, repo_root):
    """(text, touches_repo): formatted traceback, and whether any frame is repository code."""
    tb = traceback.extract_tb(exc.__traceback__)
    touches = any(fr.filename.startswith(repo_root + '/') for fr in tb)
    text = ''.join(traceback.format_exception(type(exc), exc, exc.__traceback__))
    return text[-4000:], touches


def rng_for(seed, prop_id, idx):
    import zlib
    return np.random.RandomState([int(seed) & 0x7fffffff, zlib.crc32(prop_id.encode()) & 0x7fffffff,
                                  int(idx) & 0x7fffffff])
