"""Reference models.  Nothing here imports the repository under test."""
import math

import numpy as np
from scipy import sparse
from scipy.special import log_ndtr, logsumexp


# ---------------------------------------------------------------------------
# brute-force joint distribution, own axis bookkeeping
# ---------------------------------------------------------------------------

def align(arr, src_attrs, attrs, shape):
    """View of ``arr`` (axes named src_attrs) broadcastable against the full domain."""
    src_attrs = list(src_attrs)
    arr = np.asarray(arr, dtype=float).reshape([shape[attrs.index(a)] for a in src_attrs])
    order = sorted(range(len(src_attrs)), key=lambda i: attrs.index(src_attrs[i]))
    arr = np.transpose(arr, order) if len(order) else arr
    present = set(src_attrs)
    return arr.reshape([shape[i] if a in present else 1 for i, a in enumerate(attrs)])


def log_joint(attrs, shape, pots):
    """Sum of log-potentials on the full domain.  pots: iterable of (clique_attrs, ndarray)."""
    attrs = list(attrs)
    full = np.zeros(tuple(shape), dtype=float)
    for cl, arr in pots:
        with np.errstate(invalid='ignore'):
            full = full + align(arr, cl, attrs, list(shape))
    return full


def joint(attrs, shape, pots, total):
    """Normalised product distribution scaled to ``total`` (ndarray of shape ``shape``)."""
    lj = log_joint(attrs, shape, pots)
    m = lj.max() if lj.size else 0.0
    if not np.isfinite(m):
        raise ValueError('distribution undefined (max log-potential %r)' % m)
    p = np.exp(lj - m)
    return p * (float(total) / p.sum())


def marginal(P, attrs, want):
    """Marginal of joint table P (axes = attrs) laid out in the order ``want``."""
    attrs = list(attrs)
    want = list(want)
    drop = tuple(i for i, a in enumerate(attrs) if a not in want)
    M = P.sum(axis=drop) if drop else P
    kept = [a for a in attrs if a in want]
    perm = [kept.index(a) for a in want]
    return np.transpose(M, perm) if perm else M


def cell_index_map(attrs, shape, proj):
    """For each cell of the full joint (C order), the flat index of its projection onto
    ``proj`` (in proj's own order)."""
    attrs = list(attrs)
    n = int(np.prod(shape)) if len(shape) else 1
    if len(proj) == 0:
        return np.zeros(n, dtype=int)
    grids = np.indices(tuple(shape)).reshape(len(shape), -1)
    ax = [attrs.index(a) for a in proj]
    pshape = [shape[a] for a in ax]
    return np.ravel_multi_index([grids[a] for a in ax], pshape)


def dense(Q):
    if Q is None:
        return None
    if sparse.issparse(Q):
        return np.asarray(Q.toarray(), dtype=float)
    if hasattr(Q, 'matmat') and not isinstance(Q, np.ndarray):
        return np.asarray(Q @ np.eye(Q.shape[1]), dtype=float)
    return np.asarray(Q, dtype=float)


# ---------------------------------------------------------------------------
# constrained least squares over the full joint, with a duality-gap certificate
# ---------------------------------------------------------------------------

def full_system(attrs, shape, meas):
    """Dense (A, b) with loss(p) = 0.5 ||A p - b||^2 for p the flattened joint table.
    meas: list of (Q dense-or-None, y, sigma, proj)."""
    n = int(np.prod(shape)) if len(shape) else 1
    rows, bs = [], []
    for Q, y, s, proj in meas:
        idx = cell_index_map(attrs, shape, proj)
        Qd = dense(Q)
        if Qd is None:
            Qd = np.eye(int(np.prod([shape[list(attrs).index(a)] for a in proj])) if len(proj) else 1)
        rows.append(Qd[:, idx] / float(s))
        bs.append(np.asarray(y, dtype=float) / float(s))
    if not rows:
        return np.zeros((0, n)), np.zeros(0)
    return np.vstack(rows), np.concatenate(bs)


def ls_loss(A, b, p):
    r = A @ p - b
    return 0.5 * float(r @ r)


def fw_gap(A, b, p, total):
    g = A.T @ (A @ p - b)
    return float(g @ p - total * g.min())


def _proj_simplex(v, total):
    n = v.size
    u = np.sort(v)[::-1]
    css = np.cumsum(u) - total
    k = np.arange(1, n + 1)
    cond = u - css / k > 0
    rho = k[cond][-1]
    tau = css[cond][-1] / rho
    return np.maximum(v - tau, 0)


def simplex_ls(A, b, total, maxit=3000, rel=1e-10):
    """min 0.5||Ap-b||^2 s.t. p>=0, sum p = total.  Accelerated projected gradient warm
    start followed by a primal active-set method (exact KKT solves on the support).  Returns
    (p, f(p), gap) where f* >= f(p) - gap (Frank-Wolfe certificate computed from p alone)."""
    n = A.shape[1]
    total = float(total)
    if A.shape[0] == 0:
        p = np.ones(n) * total / n
        return p, 0.0, 0.0
    if n == 1:
        p = np.array([total])
        return p, ls_loss(A, b, p), 0.0
    L = np.linalg.norm(A, 2) ** 2 + 1e-300
    AtA = A.T @ A
    Atb = A.T @ b
    grad = lambda v: AtA @ v - Atb
    x = np.ones(n) * total / n
    z = x.copy()
    t = 1.0
    for it in range(maxit):
        g = grad(z)
        xn = _proj_simplex(z - g / L, total)
        tn = (1 + math.sqrt(1 + 4 * t * t)) / 2
        z = xn + (t - 1) / tn * (xn - x)
        if g @ (xn - x) > 0:
            z = xn.copy()
            tn = 1.0
        x, t = xn, tn
        if it % 100 == 99 and fw_gap(A, b, x, total) <= rel * max(1.0, ls_loss(A, b, x)):
            break
    best = x
    if fw_gap(A, b, x, total) > rel * max(1.0, ls_loss(A, b, x)):
        xa = _active_set(A, b, AtA, Atb, x, total)
        if xa is not None and fw_gap(A, b, xa, total) < fw_gap(A, b, best, total):
            best = xa
    return best, ls_loss(A, b, best), max(0.0, fw_gap(A, b, best, total))


def _kkt(AtA, Atb, S, total):
    k = S.size
    K = np.zeros((k + 1, k + 1))
    K[:k, :k] = AtA[np.ix_(S, S)]
    K[:k, k] = 1
    K[k, :k] = 1
    rhs = np.concatenate([Atb[S], [total]])
    sol = np.linalg.lstsq(K, rhs, rcond=None)[0]
    return sol[:k]


def _active_set(A, b, AtA, Atb, x0, total):
    n = x0.size
    x = x0.copy()
    inS = x > 1e-12 * total
    if not inS.any():
        inS[np.argmax(x)] = True
    x[~inS] = 0
    x *= total / x.sum()
    scale = max(1.0, float(np.abs(Atb).max()))
    for it in range(20 * n + 50):
        S = np.where(inS)[0]
        ps = _kkt(AtA, Atb, S, total)
        xs = x[S]
        neg = ps < -1e-13 * total
        if neg.any():
            d = ps - xs
            with np.errstate(divide='ignore', invalid='ignore'):
                ratios = np.where(d < 0, xs / (-d), np.inf)
            ratios[~neg] = np.inf
            tstep = float(min(1.0, ratios.min()))
            xs = xs + tstep * d
            hit = (xs <= 1e-15 * total) & (d < 0)
            if not hit.any():
                hit[np.argmin(ratios)] = True
            xs[hit] = 0
            x[S] = np.maximum(xs, 0)
            inS[S[hit]] = False
            if not inS.any():
                return None
            x *= total / x.sum()
            continue
        x[:] = 0
        x[S] = np.maximum(ps, 0)
        x *= total / x.sum()
        g = AtA @ x - Atb
        lam = float(g[S] @ x[S]) / total
        out = np.where(~inS)[0]
        if out.size == 0:
            return x
        j = out[np.argmin(g[out])]
        if g[j] >= lam - 1e-12 * scale:
            return x
        inS[j] = True
    return x


# ---------------------------------------------------------------------------
# privacy accounting (independent of mechanisms/cdp2adp.py)
# ---------------------------------------------------------------------------

def log_cks_bound(rho, eps, alpha):
    """log of the Canonne-Kamath-Steinke bound at Renyi order alpha > 1."""
    return (alpha - 1) * (alpha * rho - eps) + alpha * math.log1p(-1.0 / alpha) - math.log(alpha - 1)


def cks_delta(rho, eps):
    """min over alpha in (1, inf) of the CKS bound, capped at 1.  Grid + golden refinement
    over u = log(alpha - 1); the objective is unimodal in alpha."""
    if rho == 0:
        return 0.0
    us = np.linspace(-30, 30, 1201)
    vals = np.array([log_cks_bound(rho, eps, 1 + math.exp(u)) for u in us])
    i = int(np.argmin(vals))
    lo, hi = us[max(0, i - 1)], us[min(len(us) - 1, i + 1)]
    gr = (math.sqrt(5) - 1) / 2
    c, d = hi - gr * (hi - lo), lo + gr * (hi - lo)
    fc = log_cks_bound(rho, eps, 1 + math.exp(c))
    fd = log_cks_bound(rho, eps, 1 + math.exp(d))
    for _ in range(200):
        if fc < fd:
            hi, d, fd = d, c, fc
            c = hi - gr * (hi - lo)
            fc = log_cks_bound(rho, eps, 1 + math.exp(c))
        else:
            lo, c, fc = c, d, fd
            d = lo + gr * (hi - lo)
            fd = log_cks_bound(rho, eps, 1 + math.exp(d))
        if hi - lo < 1e-13:
            break
    best = min(fc, fd, float(vals[i]))
    return min(1.0, math.exp(best)) if best < 700 else 1.0


def log_cks_delta(rho, eps):
    d = cks_delta(rho, eps)
    return math.log(d) if d > 0 else -math.inf


def rho_budget(eps, delta):
    """sup{rho : cks_delta(rho, eps) <= delta} by bisection (delta in (0,1))."""
    lo, hi = 0.0, eps + 1.0
    while cks_delta(hi, eps) <= delta:
        hi *= 2
    for _ in range(200):
        mid = (lo + hi) / 2
        if cks_delta(mid, eps) <= delta:
            lo = mid
        else:
            hi = mid
    return lo


def log_gauss_delta(rho, eps):
    """log of the exact delta(eps) of a Gaussian mechanism with zCDP parameter rho
    (mu = sqrt(2 rho)):  Phi(-eps/mu + mu/2) - e^eps Phi(-eps/mu - mu/2)."""
    mu = math.sqrt(2 * rho)
    a = float(log_ndtr(-eps / mu + mu / 2))
    b = eps + float(log_ndtr(-eps / mu - mu / 2))
    if b >= a:
        return -math.inf
    return a + math.log1p(-math.exp(b - a))


def log_gauss_delta_mp(rho, eps, dps=50):
    import mpmath as mp
    mp.mp.dps = dps
    rho, eps = mp.mpf(rho), mp.mpf(eps)
    mu = mp.sqrt(2 * rho)
    Phi = lambda x: mp.erfc(-x / mp.sqrt(2)) / 2
    d = Phi(-eps / mu + mu / 2) - mp.e ** eps * Phi(-eps / mu - mu / 2)
    return float(mp.log(d)) if d > 0 else -math.inf


# ---------------------------------------------------------------------------
# misc
# ---------------------------------------------------------------------------

def softmax_log(scores):
    scores = np.asarray(scores, dtype=float)
    return scores - logsumexp(scores)


def weissman_radius(k, n, fail=1e-12):
    """L1 radius r with P(||p_hat - p||_1 >= r) <= fail for n samples over k cells."""
    return math.sqrt(2.0 * (k * math.log(2) + math.log(1.0 / fail)) / max(n, 1))
