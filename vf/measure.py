"""Measurement-set generators and query 'spellings' shared by the estimation checks."""
import numpy as np
from scipy import sparse
from scipy.sparse.linalg import aslinearoperator

from . import gen, oracles

QKINDS = ['identity', 'none', 'dense', 'tall', 'wide', 'sparse', 'prefix', 'rankdef', 'total_row', 'scaled']
SIGMAS = [0.1, 0.5, 1.0, 5.0, 20.0, 100.0]


def make_Q(rng, kind, n):
    """Dense query matrix of the given class over n cells (None for kind 'none')."""
    if kind == 'none':
        return None
    if kind == 'identity':
        return np.eye(n)
    if kind == 'scaled':
        return np.eye(n) * float(gen.pick(rng, [0.5, 2.0, 10.0]))
    if kind == 'dense':
        return rng.normal(size=(n, n))
    if kind == 'tall':
        return rng.normal(size=(n + int(rng.randint(1, 3)), n))
    if kind == 'wide':
        return rng.normal(size=(max(1, int(rng.randint(1, n + 1))), n))
    if kind == 'sparse':
        Q = (rng.rand(n + 1, n) < 0.4) * rng.normal(size=(n + 1, n))
        Q[:n, :] += np.eye(n)
        return Q
    if kind == 'prefix':
        return np.tril(np.ones((n, n)))
    if kind == 'rankdef':
        r = max(1, n // 2)
        return rng.normal(size=(n, r)) @ rng.normal(size=(r, n))
    if kind == 'total_row':
        return np.ones((1, n))
    if kind == 'hier':
        return hierarchical(n)
    raise ValueError(kind)


def hierarchical(n):
    """Square, singular for n >= 2, and its row space contains the total query: the total, one cell, the rest, then
    single cells (the counts a hierarchical workload asks for)."""
    if n == 1:
        return np.ones((1, 1))
    if n == 2:
        return np.ones((2, 2))
    rows = [np.ones(n), np.eye(n)[0], np.ones(n) - np.eye(n)[0]] + [np.eye(n)[i] for i in range(2, n - 1)]
    return np.array(rows, dtype=float)


def spell(Q, how):
    """The same query in another representation accepted by the estimator."""
    if Q is None:
        return None
    if how == 'dense':
        return np.array(Q, dtype=float)
    if how == 'csr':
        return sparse.csr_matrix(Q)
    if how == 'linop':
        return aslinearoperator(np.array(Q, dtype=float))
    raise ValueError(how)


def true_table(rng, shape, N, skew=1.0):
    """Contingency table of N records drawn from a random (Dirichlet-ish) distribution."""
    n = int(np.prod(shape))
    p = rng.gamma(skew, size=n) + 1e-12
    p /= p.sum()
    if N >= 1:
        x = rng.multinomial(int(N), p).astype(float)
    else:
        x = p * N
    return x.reshape(shape)


def projections(rng, attrs, shape, k, structure, min_cells=1, max_cells=64):
    """k attribute tuples (arbitrary order inside each) of the given overlap structure."""
    attrs = list(attrs)
    d = len(attrs)
    size = lambda t: int(np.prod([shape[attrs.index(a)] for a in t])) if len(t) else 1
    out = []
    tries = 0
    while len(out) < k and tries < 200:
        tries += 1
        if structure == 'nested' and out and rng.rand() < 0.6:
            base = out[int(rng.randint(len(out)))]
            t = tuple(base[i] for i in rng.permutation(len(base))[:max(1, int(rng.randint(1, len(base) + 1)))])
        elif structure == 'repeated' and out and rng.rand() < 0.5:
            base = out[int(rng.randint(len(out)))]
            t = gen.shuffled(rng, base)
        elif structure == 'cyclic' and d >= 3:
            i = len(out) % d
            t = (attrs[i], attrs[(i + 1) % d])
            if rng.rand() < 0.5:
                t = t[::-1]
        elif structure == 'disjoint':
            used = set(a for t in out for a in t)
            free = [a for a in attrs if a not in used]
            if not free:
                break
            kk = int(rng.randint(1, min(2, len(free)) + 1))
            t = tuple(free[i] for i in rng.permutation(len(free))[:kk])
        else:
            kk = int(rng.randint(1, min(d, 3) + 1))
            t = tuple(attrs[i] for i in rng.permutation(d)[:kk])
        if min_cells <= size(t) <= max_cells:
            out.append(tuple(t))
    if not out:
        # fall back to the first attribute with enough cells
        for a in attrs:
            if size((a,)) >= min_cells:
                out.append((a,))
                break
    return out


def gen_measurements(rng, attrs, shape, kmin=1, kmax=5, N=None, qkinds=None, sigmas=None, structure=None,
                     min_cells=1, max_cells=64, noise=True):
    """Returns (meas, info): meas is a list of dicts {Q (dense or None), kind, y, sigma, proj}."""
    N = N if N is not None else float(gen.pick(rng, [1, 20, 1000, 100000]))
    structure = structure or gen.pick(rng, ['random', 'random', 'nested', 'repeated', 'cyclic', 'disjoint'])
    k = int(rng.randint(kmin, kmax + 1))
    X = true_table(rng, shape, N, skew=float(gen.pick(rng, [0.3, 1.0, 5.0])))
    projs = projections(rng, attrs, shape, k, structure, min_cells, max_cells)
    hetero = rng.rand() < 0.6
    s0 = float(gen.pick(rng, sigmas or SIGMAS))
    meas = []
    for t in projs:
        n = int(np.prod([shape[list(attrs).index(a)] for a in t]))
        kind = gen.pick(rng, qkinds or QKINDS)
        if n == 1 and kind in ('rankdef',):
            kind = 'identity'
        Q = make_Q(rng, kind, n)
        x = oracles.marginal(X, list(attrs), list(t)).reshape(-1)
        sigma = float(gen.pick(rng, sigmas or SIGMAS)) if hetero else s0
        y = (x if Q is None else Q @ x)
        if noise:
            y = y + rng.normal(0, sigma, size=y.shape)
        meas.append(dict(Q=Q, kind=kind, y=np.asarray(y, dtype=float), sigma=sigma, proj=tuple(t)))
    return meas, dict(N=N, structure=structure, X=X)


def as_tuples(meas, spellings=None, proj_forms=None):
    """Measurement 4-tuples as the repository expects them."""
    out = []
    for i, m in enumerate(meas):
        how = (spellings[i] if spellings else 'dense')
        Q = spell(m['Q'], how) if m['Q'] is not None else None
        proj = m['proj']
        form = proj_forms[i] if proj_forms else 'tuple'
        if form == 'list':
            proj = list(proj)
        elif form == 'str' and len(proj) == 1:
            proj = proj[0]
        out.append((Q, np.array(m['y'], dtype=float), float(m['sigma']), proj))
    return out


def plain_tuples(meas):
    """(dense Q or None, y, sigma, proj) for the harness-side oracles."""
    return [(m['Q'], m['y'], m['sigma'], tuple(m['proj'])) for m in meas]
