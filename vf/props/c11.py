"""C11 - synthetic records faithfully realise the model.

Monitor on GraphicalModel.synthetic_data results: row count, value ranges, zero-probability
cells, and per-clique count errors against the brute-force joint - an N-independent rounding
bound in 'round' mode (recomputed by the harness from the elimination order) and Weissman's
L1 concentration bound (failure probability 1e-12 per clique) in 'sample' mode.
"""
import numpy as np

from .. import gen, oracles, models
from . import c01

ID = 'C11'
RULE = ('C01-style model (structure class x potentials with -inf cells x total in {0.5,1,7.5,1e3,12345.6}) x rows in '
        '{None,1,10,1e3,1e5,1e6} x method {round, sample} x numpy seed; distinct = content hash; non-trivial = at least one '
        'row requested and >= 2 cells')
ANCHORS = ['GraphicalModel.synthetic_data', 'GraphicalModel.project', 'Dataset.__init__']
DECIDING = ['row_count', 'values_in_range', 'zero_probability_cells_empty', 'rounding_error_bounded', 'sampling_concentration']
ASSUMPTIONS = ['rounding bound B = 2 * sum_c (#configurations of the conditioning set of column c x #values of c), independent of the row count; recomputed from model.elimination_order and model.cliques',
               'sampling mode judged with Weissman\'s L1 inequality at failure probability 1e-12 per clique, so a false alarm is practically impossible for any seed',
               'cells are "zero probability" when the brute-force joint is exactly 0 (a -inf potential)']
PLAN = {
    'quick': dict(cases=200, budget_s=75, case_timeout=300, min_cases=50),
    'thorough': dict(cases=5000, budget_s=600, case_timeout=600, min_cases=833),
}
TOTALS = [0.5, 1.0, 7.5, 1e3, 12345.6]
ROWS = [None, None, 1, 10, 1000, 1000, 100000, 1000000]


def gen_case(rng, tier, idx):
    base = c01.gen_case(rng, tier, 0)
    loopy = rng.rand() < 0.3   # models whose triangulation adds fill-in edges, where a wrong conditioning set shows
    while int(np.prod(base['shape'])) > 4096 or (loopy and not (base['cls'] in ('cycle', 'grid') and len(base['attrs']) >= 4
                                                                  and min(base['shape']) >= 2)):
        base = c01.gen_case(rng, tier, 0)
    if loopy and base['scale'] < 1.0:
        base['pots'] = [(s_, a * (1.0 / base['scale'])) for s_, a in base['pots']]
        base['scale'] = 1.0
    if base['scale'] > 10:
        f = float(gen.pick(rng, [1.0, 3.0])) / base['scale']
        base['pots'] = [(s, np.where(np.isfinite(a), a * f, a)) for s, a in base['pots']]
        base['scale'] = base['scale'] * f
    if rng.rand() < 0.3:
        # a constant added to a clique's log-potentials does not change the distribution
        off = float(gen.pick(rng, [-300.0, 400.0]))
        base['pots'] = [(s_, np.where(np.isfinite(a), a + off, a)) for s_, a in base['pots']]
        base['offset'] = off
    base['total'] = float(gen.pick(rng, TOTALS))
    rows = gen.pick(rng, ROWS)
    if rows is not None and rows >= 100000 and idx % 2 != 0:
        rows = 1000  # keep half of the cases cheap; a sampling-size error only shows against the bound at large row counts
    if loopy:
        rows = int(gen.pick(rng, [20000, 100000]))
        base['scale'] = max(base['scale'], 1.0)
    base.update(kind='synthetic', rows=rows, method=gen.pick(rng, ['round', 'round', 'sample']), data_seed=int(rng.randint(2 ** 31)))
    return base


def describe(case):
    d = c01.describe(dict(case, kind='static'))
    d.update(rows=case['rows'], method=case['method'])
    return d


def rounding_bound(model, attrs, shape):
    order = list(model.elimination_order)[::-1]
    cliques = [set(cl) for cl in model.cliques]
    size = lambda a: shape[attrs.index(a)]
    used = {order[0]}
    B = size(order[0])
    for col in order[1:]:
        relevant = [cl for cl in cliques if col in cl]
        R = used & set.union(*relevant)
        B += int(np.prod([size(a) for a in R])) * size(col) if R else size(col)
        used.add(col)
    return 2 * B


def run_case(case, ctx):
    attrs, shape, total = case['attrs'], case['shape'], case['total']
    rng = np.random.RandomState(case['np_seed'] % (2 ** 32))
    model = models.make_model(attrs, shape, case['cliques'], total, case['elim'], np_seed=case['np_seed'])
    model.potentials = models.place_potentials(model, attrs, shape, case['pots'], rng, case['permute_prob'])
    P = oracles.joint(attrs, shape, case['pots'], 1.0)
    want_rows = int(total) if case['rows'] is None else int(case['rows'])
    ctx.tag('method:' + case['method'])
    ctx.tag('rows:%s' % case['rows'])
    ctx.tag('cls:' + case['cls'])
    if want_rows == 0 or int(np.prod(shape)) < 2:
        ctx.trivial = True
    np.random.seed(case['data_seed'] % (2 ** 32))
    with np.errstate(all='ignore'):
        if case['data_seed'] % 3 == 0:
            # as after estimation: the model carries cached clique marginals, and it has already been used once
            # (a small preview) before the call that is judged
            model.marginals = model.belief_propagation(model.potentials)
            model.synthetic_data(rows=int(gen.pick(np.random.RandomState(case['data_seed'] % (2 ** 32)), [5, 10, 37])), method='round')
            ctx.tag('second_call_on_cached_model')
        elif case['data_seed'] % 3 == 1:
            model.marginals = model.belief_propagation(model.potentials)
            ctx.tag('cached_model')
        synth = model.synthetic_data(rows=case['rows'], method=case['method'])
    df = synth.df
    n = df.shape[0]
    ctx.check(n == want_rows and list(df.columns) == list(attrs) and tuple(synth.domain.attrs) == tuple(attrs)
              and tuple(synth.domain.shape) == tuple(shape), 'row_count', 'row_count',
              'synthetic_data(rows=%r, total=%r) returned %d rows, columns %r' % (case['rows'], total, n, list(df.columns)))
    if n == 0 or n != want_rows:
        if n == 0:
            ctx.mon('values_in_range')
            ctx.mon('zero_probability_cells_empty')
        return
    vals = df[list(attrs)].values
    try:
        vals_int = vals.astype(np.int64)
        integral = bool(np.all(vals_int == vals))
    except Exception:
        integral = False
    inrange = integral and bool((vals_int >= 0).all() and (vals_int < np.array(shape)).all())
    ctx.check(inrange, 'values_in_range', 'out_of_range', 'a synthetic value lies outside its attribute\'s domain (min %r max %r shape %r)' % (
        vals.min(axis=0).tolist(), vals.max(axis=0).tolist(), shape))
    if not inrange:
        return
    idx = np.ravel_multi_index(tuple(vals_int.T), tuple(shape))
    counts = np.bincount(idx, minlength=int(np.prod(shape))).reshape(shape).astype(float)
    in_zero = float(counts[P == 0].sum())
    ctx.check(in_zero == 0, 'zero_probability_cells_empty', 'record_in_zero_cell',
              '%d of %d records fall in cells the model gives probability 0' % (int(in_zero), n))
    if case['method'] == 'round':
        B = rounding_bound(model, attrs, shape)
        worst = 0.0
        for cl in model.cliques:
            err = float(np.abs(oracles.marginal(counts, attrs, list(cl)) - n * oracles.marginal(P, attrs, list(cl))).sum())
            worst = max(worst, err)
        ctx.stat('rounding_error_over_bound', worst / B)
        ctx.stat('rounding_error_abs', worst)
        ctx.check(worst <= B, 'rounding_error_bounded', 'rounding_error',
                  'clique count error %.1f exceeds the row-count-independent bound %d (rows %d)' % (worst, B, n), rows=n)
    else:
        worst = 0.0
        for cl in model.cliques:
            p = oracles.marginal(P, attrs, list(cl))
            k = int(np.count_nonzero(p))
            err = float(np.abs(oracles.marginal(counts, attrs, list(cl)) / n - p).sum())
            rad = oracles.weissman_radius(max(k, 2), n)
            worst = max(worst, err / rad)
        # "the records follow the model's distribution" is a statement about the joint, not only about the
        # model's own cliques: the full table and every pair of attributes (sharing a clique or not)
        import itertools
        others = [list(attrs)] + [list(pr) for pr in itertools.combinations(attrs, 2)]
        for sub in others:
            p = oracles.marginal(P, attrs, sub)
            k = int(np.count_nonzero(p))
            err = float(np.abs(oracles.marginal(counts, attrs, sub) / n - p).sum())
            rad = oracles.weissman_radius(max(k, 2), n)
            worst = max(worst, err / rad)
            ctx.mon('joint_and_pair_marginals_compared')
        ctx.stat('sampling_error_over_weissman_radius', worst)
        ctx.check(worst <= 1.0, 'sampling_concentration', 'not_the_model_distribution',
                  'empirical distribution (cliques, pairs of attributes, full table) is %.2f Weissman radii (failure probability 1e-12) from the model (rows %d)' % (worst, n))


TECHNIQUE = 'runtime monitoring: synthetic_data outputs judged against the brute-force joint: exact row/range/zero-cell checks, an N-independent rounding bound per clique, and a 1e-12 concentration bound in sampling mode'
LEVEL_TEXT = ('Held on the calls observed: exact number of rows (default int(total)), every value inside its attribute\'s range, no '
              'record in a zero-probability cell; in rounding mode every model clique\'s count vector is within the row-count-'
              'independent bound of the expected counts (observed error does not grow from 10 to 1e6 rows); in sampling mode every '
              'clique\'s empirical distribution is inside the Weissman radius. Sampling over structures, totals, row counts and seeds.')
LEVEL_NOTE = 'The rounding bound is derived in DESIGN.md (C11) and recomputed from the model\'s elimination order; the statistical check uses a bound with failure probability 1e-12.'
