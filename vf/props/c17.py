"""C17 - the convex region-graph oracle solves its variational problem.

The output of RegionGraph(convex=True).belief_propagation, run to convergence, is judged by
(i) local consistency on every pair region / sub-region, (ii) a KKT certificate computed from
the output alone (theta_r - log b_r must lie in the span of the consistency-constraint normals
plus a constant per region; with consistency this is necessary and sufficient because the
objective is strictly concave) and (iii) agreement with an independent dual solver (L-BFGS on
the Lagrange multipliers, plain numpy).
"""
import numpy as np
from scipy.optimize import minimize
from scipy.special import logsumexp

from .. import gen, oracles, models

ID = 'C17'
RULE = ('clique sets {trees, single loops, triangles, all pairs on 4-5 attributes, dense triples, nested regions, random hyper} '
        'over 3-5 attributes of size 2-3 x potentials on every region (scale 0.1-3) x total x damping {0.2,0.5,0.8}; run with '
        'convergence=1e-12 for 2000 (then 8000) sweeps; distinct = content hash; non-trivial = at least one region with a '
        'sub-region (otherwise there is nothing to make consistent)')
ANCHORS = ['RegionGraph.__init__', 'RegionGraph.build_graph', 'RegionGraph.hazan_peng_shashua', 'RegionGraph.primal_feasibility',
           'RegionGraph.is_converged']
DECIDING = ['locally_consistent', 'kkt_stationarity', 'matches_dual_solver']
ASSUMPTIONS = ['"run to convergence" = consistency residual <= 1e-8 (probability units) within 2000 -> 8000 sweeps; a residual above 1e-4 after 8000 sweeps is a violation (not converging), one between 1e-8 and 1e-4 is inconclusive, and more than 2% such cases make the check inconclusive',
               'consistency is required between every region and every sub-region present in the graph, not only along the graph\'s pruned edges',
               'dual-solver agreement judged at 1e-6 and only when the reference\'s own gradient norm is <= 1e-8',
               'every region, including derived intersections, has counting number 1 (the convexified free energy of the code)']
PLAN = {
    'quick': dict(cases=64, budget_s=150, case_timeout=600, min_cases=12),
    'thorough': dict(cases=900, budget_s=1200, case_timeout=1200, min_cases=150),
}
STRUCTS = ['tree', 'loop', 'triangle', 'all_pairs', 'dense_triples', 'nested', 'hyper', 'star']


def gen_case(rng, tier, idx):
    struct = STRUCTS[idx % len(STRUCTS)]
    d = int(rng.randint(3, 6)) if struct not in ('triangle',) else 3
    if struct in ('all_pairs', 'dense_triples', 'nested'):
        d = int(rng.randint(4, 6))
    names = [gen.NAMES[i] for i in rng.permutation(8)[:d]]
    shape = [int(gen.pick(rng, [2, 2, 3])) for _ in names]
    import itertools
    if struct == 'tree':
        cliques = [(names[i], names[int(rng.randint(i))]) for i in range(1, d)]
    elif struct == 'loop':
        cliques = [(names[i], names[(i + 1) % d]) for i in range(d)]
    elif struct == 'triangle':
        cliques = [(names[0], names[1]), (names[1], names[2]), (names[0], names[2])]
    elif struct == 'all_pairs':
        cliques = list(itertools.combinations(names, 2))
    elif struct == 'dense_triples':
        allt = list(itertools.combinations(names, 3))
        cliques = [allt[i] for i in rng.permutation(len(allt))[:int(rng.randint(2, min(5, len(allt)) + 1))]]
    elif struct == 'nested':
        cliques = [tuple(names[:3]), tuple(names[:2]), (names[1],), (names[2], names[-1])]
    elif struct == 'star':
        cliques = [(names[0], names[i]) for i in range(1, d)]
    else:
        cliques = []
        for _ in range(int(rng.randint(2, 6))):
            k = int(rng.randint(1, 4))
            cliques.append(tuple(names[i] for i in rng.permutation(d)[:k]))
    cliques = [gen.shuffled(rng, c) if rng.rand() < 0.3 else tuple(c) for c in cliques]
    cliques = list(dict.fromkeys(cliques))
    return dict(struct=struct, attrs=names, shape=shape, cliques=cliques, total=float(gen.pick(rng, [1.0, 1.0, 10.0, 1000.0])),
                scale=float(gen.pick(rng, [0.1, 1.0, 3.0])), damping=float(gen.pick(rng, [0.2, 0.5, 0.8])),
                pot_seed=int(rng.randint(2 ** 31)))


def describe(case):
    return {k: case[k] for k in ('struct', 'attrs', 'shape', 'cliques', 'total', 'scale', 'damping')}


class Problem:
    """Plain-numpy description of the variational problem over a set of regions."""

    def __init__(self, attrs, shape, regions, theta):
        self.regions = list(regions)
        self.shape = {r: [shape[attrs.index(a)] for a in r] for r in self.regions}
        self.n = {r: int(np.prod(self.shape[r])) for r in self.regions}
        self.theta = {r: np.asarray(theta[r], dtype=float).reshape(-1) for r in self.regions}
        self.edges = [(p, c) for p in self.regions for c in self.regions if set(c) < set(p)]
        self.idx = {(p, c): oracles.cell_index_map(list(p), self.shape[p], list(c)) for p, c in self.edges}
        self.off = {}
        k = 0
        for e in self.edges:
            self.off[e] = k
            k += self.n[e[1]]
        self.nlam = k

    def beliefs(self, lam):
        t = {r: self.theta[r].copy() for r in self.regions}
        for (p, c) in self.edges:
            l = lam[self.off[(p, c)]:self.off[(p, c)] + self.n[c]]
            t[c] -= l
            t[p] += l[self.idx[(p, c)]]
        return t

    def dual(self, lam):
        t = self.beliefs(lam)
        val = 0.0
        b = {}
        for r in self.regions:
            z = logsumexp(t[r])
            val += z
            b[r] = np.exp(t[r] - z)
        g = np.zeros(self.nlam)
        for (p, c) in self.edges:
            g[self.off[(p, c)]:self.off[(p, c)] + self.n[c]] = np.bincount(self.idx[(p, c)], weights=b[p], minlength=self.n[c]) - b[c]
        return val, g

    def solve(self):
        if self.nlam == 0:
            lam = np.zeros(0)
            gn = 0.0
        else:
            res = minimize(self.dual, np.zeros(self.nlam), jac=True, method='L-BFGS-B',
                           options=dict(maxiter=50000, maxfun=100000, ftol=1e-18, gtol=1e-13))
            lam = res.x
            gn = float(np.abs(self.dual(lam)[1]).max())
        t = self.beliefs(lam)
        return {r: np.exp(t[r] - logsumexp(t[r])) for r in self.regions}, gn

    def consistency(self, b):
        worst = 0.0
        for (p, c) in self.edges:
            proj = np.bincount(self.idx[(p, c)], weights=b[p], minlength=self.n[c])
            worst = max(worst, float(np.abs(proj - b[c]).max()))
        return worst

    def kkt_residual(self, b):
        """max residual of: theta_r - log b_r = nu_r + sum_{children c} lam_{r->c}[proj] - sum_{parents p} lam_{p->r}."""
        nvar = self.nlam + len(self.regions)
        rows, rhs = [], []
        for i, r in enumerate(self.regions):
            n = self.n[r]
            A = np.zeros((n, nvar))
            A[:, self.nlam + i] = 1
            for (p, c) in self.edges:
                o = self.off[(p, c)]
                if c == r:
                    A[np.arange(n), o + np.arange(n)] += 1
                if p == r:
                    A[np.arange(n), o + self.idx[(p, c)]] += -1
            rows.append(A)
            with np.errstate(divide='ignore'):
                rhs.append(self.theta[r] - np.log(b[r]))
        A = np.vstack(rows)
        t = np.concatenate(rhs)
        if not np.isfinite(t).all():
            return float('inf')
        x = np.linalg.lstsq(A, t, rcond=None)[0]
        return float(np.abs(A @ x - t).max())


def run_case(case, ctx):
    m = models.mbi()
    attrs, shape, total = case['attrs'], case['shape'], case['total']
    dom = models.make_domain(attrs, shape)
    rng = np.random.RandomState(case['pot_seed'])
    ctx.tag('struct:' + case['struct'])
    ctx.tag('damping:%g' % case['damping'])
    cliques = [tuple(c) for c in case['cliques']]
    theta_arr = None
    converged = False
    for sweeps in (2000, 8000):
        late_total = (case['pot_seed'] % 3 == 0)   # as LocalInference does for a ready-made oracle: model.total = total
        with np.errstate(all='ignore'):
            rg = m.RegionGraph(dom, cliques, (3.0 if late_total else total), convex=True, iters=sweeps, convergence=1e-12, damping=case['damping'])
            if late_total:
                rg.total = total
                ctx.tag('total_assigned_after_construction')
        regions = list(rg.cliques)
        if theta_arr is None:
            theta_arr = {r: rng.normal(size=[shape[attrs.index(a)] for a in r]) * case['scale'] for r in regions}
            prob = Problem(attrs, shape, regions, theta_arr)
            if not prob.edges:
                ctx.trivial = True
        theta = m.CliqueVector({r: m.Factor(dom.project(r), np.array(theta_arr[r])) for r in regions})
        with np.errstate(all='ignore'):
            mu = rg.belief_propagation(theta)
        if set(mu.keys()) != set(regions):
            ctx.check(False, 'locally_consistent', 'keys', 'marginals on %r, regions %r' % (list(mu.keys()), regions))
            return
        b = {}
        for r in regions:
            at, v = models.factor_parts(mu[r])
            v = oracles.marginal(v, list(at), list(r)) if tuple(at) != tuple(r) else v
            b[r] = v.reshape(-1) / total
        if not all(np.isfinite(b[r]).all() and (b[r] >= 0).all() and abs(b[r].sum() - 1) < 1e-9 for r in regions):
            ctx.check(False, 'locally_consistent', 'invalid', 'pseudo-marginals are not normalised non-negative tables')
            return
        cons = prob.consistency(b)
        if cons <= 1e-8:
            converged = True
            break
        ctx.mon('escalated_to_8000_sweeps')
    ctx.stat('consistency_residual', cons)
    ctx.stat('sweeps_allowed', sweeps)
    kkt = prob.kkt_residual(b)
    ctx.stat('kkt_residual', kkt if np.isfinite(kkt) else 1e308)
    # stationarity is decidable whether or not the sweeps were enough
    ctx.check(kkt <= 1e-6, 'kkt_stationarity', 'not_stationary',
              'theta_r - log b_r is not in the span of the consistency constraints (+ constants): residual %.3e after %d sweeps' % (kkt, sweeps))
    if not converged:
        # Bounded restatement of "run to convergence": on the unchanged tree every one of 640 calibration cases
        # reached 1e-8 within 8000 sweeps (638 of them within 2000, typically at 1e-12).  A residual still above
        # 1e-4 after 8000 sweeps is therefore judged as not converging; between 1e-8 and 1e-4 the case is
        # inconclusive (counted; the check decides on the fraction).
        if cons > 1e-4:
            ctx.check(False, 'locally_consistent', 'not_converging',
                      'consistency residual still %.3e after %d sweeps (damping %g): the oracle does not converge to locally consistent pseudo-marginals' % (cons, sweeps, case['damping']))
        else:
            ctx.mon('not_converged_within_budget')
            ctx.tag('not_converged:' + case['struct'])
        return
    ctx.check(True, 'locally_consistent', '', '')
    ref, gn = prob.solve()
    ctx.stat('reference_gradient_norm', gn)
    if gn <= 1e-8:
        dev = max(float(np.abs(ref[r] - b[r]).max()) for r in regions)
        ctx.stat('deviation_from_dual_solver', dev)
        ctx.check(dev <= 1e-6, 'matches_dual_solver', 'not_the_optimum',
                  'converged, consistent pseudo-marginals differ from the independent dual solver\'s optimum by %.3e (reference gradient %.1e)' % (dev, gn))
    else:
        ctx.mon('reference_not_converged')


def fixed_cases(tier):
    # F12 (repaired): a sub-clique spelled in non-sorted attribute order used to be added again as a region
    w = dict(struct='hyper', attrs=['bb', 'd4', 'g', 'c'], shape=[2, 3, 2, 2],
             cliques=[('d4', 'c', 'g'), ('d4', 'c'), ('g', 'c'), ('bb', 'c', 'g')], total=1000.0, scale=3.0, damping=0.2, pot_seed=1)
    return [('fixed:F12', w)]


def inconclusive_reasons(monitors, tags, stats, tier):
    n = monitors.get('kkt_stationarity', 0)
    bad = monitors.get('not_converged_within_budget', 0)
    if n and bad > max(1, 0.02 * n):
        return ['%d of %d cases did not reach consistency 1e-8 within 8000 sweeps' % (bad, n)]
    return []


TECHNIQUE = 'runtime monitoring: converged output of the real convex region-graph oracle judged by a consistency + KKT certificate computed from the output alone and by an independent dual (L-BFGS) solver'
LEVEL_TEXT = ('Held on the cases observed: run to convergence (bounded budget), the pseudo-marginals agree on every region / sub-region '
              'pair to 1e-8, satisfy the stationarity condition of the convexified free energy to 1e-6 (least-squares certificate '
              'from the output alone) and coincide with an independently computed optimum to 1e-6. Sampling over 8 structure classes, '
              '3 damping values, potentials on every region.')
LEVEL_NOTE = 'Consistency + stationarity is necessary and sufficient for a strictly concave objective under linear constraints; the dual solver is a second, independent witness.'
