"""C05 - mechanisms never spend more privacy than the (epsilon, delta) budget.

Paired-execution accountant (vf.privacy): run 1 on D records every noisy release and private
selection; run 2 on a neighbour D' replays the recorded outcomes while recording what D' would
have released / selected with.  Each event is charged by the actual change between the two
runs (Gaussian ||dx||^2/(2 sigma^2), Laplace ||dx||_1/b, selection by the range of the
log-probability ratio) and the sum is compared with an independently computed budget.
"""
import numpy as np

from .. import mechrun, privacy

ID = 'C05'
RULE = ('mechanism {MST, AIM, MWEM+PGM (gaussian/laplace, bounded on/off), Adaptive Grid (targets, split)} x dataset (3-5 attrs of '
        'size 2-6, skewed columns, N 2-300) x (eps in {0.1,1,10}, delta in {1e-9,1e-6,1e-3}, rounds, workload weights) x outcome '
        'injection {sampled, zero noise, 5-sigma noise, least-likely selection, uniform selection} x 3 neighbours (add / remove / '
        'replace one record, hostile or random); unit of evaluation = one (D, D\') pair; distinct = content hash of the case; '
        'non-trivial = the mechanism produced output')
ANCHORS = ['MST', 'measure', 'compress_domain', 'select', 'AIM.run', 'AIM.worst_approximated', 'mwem_pgm', 'worst_approximated',
           'adagrid', 'exponential_mechanism', 'Mechanism.exponential_mechanism', 'Mechanism.gaussian_noise', 'cdp_rho']
DECIDING = ['budget']
ASSUMPTIONS = ['adjacency: add / remove one record for MST, AIM, Adaptive Grid and MWEM+PGM(bounded=False); replace one record for bounded=True',
               'selection events are charged range^2/8 in zCDP accounting (per-pair form of the bounded-range bound) and max|log ratio| in pure-DP accounting',
               'budget = sup{rho: delta_CKS(rho, eps) <= delta} from the harness\'s own accountant, compared with slack 1e-6; eps for MWEM+PGM in Laplace mode',
               'FactoredInference iteration counts hard-coded in the mechanisms are capped (post-processing only; recorded per case)',
               'environment adapters: autodp / hdmm stand-ins, assignable sparse .T (DESIGN.md 0.2)',
               'configurations in which the mechanism raises before producing output are counted and not charged']
PLAN = {
    'quick': dict(cases=48, budget_s=200, case_timeout=900, min_cases=10),
    'thorough': dict(cases=600, budget_s=1200, case_timeout=1800, min_cases=100),
}


def gen_case(rng, tier, idx):
    return mechrun.pair_case(rng, tier, idx)


def describe(case):
    return mechrun.describe_pair(case)


def run_case(case, ctx):
    H = mechrun.harness(case['cap'])
    cfg = case['cfg']
    ctx.tag('mech:' + case['mech'])
    ctx.tag('inject:' + case['inject'])
    r1 = H.run(cfg, case['attrs'], case['shape'], case['rows'], 'record', case['private_seed'], case['post_seed'], inject=case['inject'])
    if r1['error'] is not None:
        ctx.trivial = True
        ctx.tag('no_output:%s:%s' % (case['mech'], r1['error_type']))
        ctx.mon('runs_without_output')
        return
    if r1['unreleased'] or r1['opaque']:
        ctx.mon('noise_not_attributable')
        ctx.trivial = True
        return
    B = mechrun.budget(cfg)
    nrel = sum(1 for e in r1['events'] if e['type'] == 'release')
    nsel = len(r1['events']) - nrel
    ctx.stat('events_per_run', len(r1['events']))
    ctx.mon('releases_observed', nrel)
    ctx.mon('selections_observed', nsel)
    scales = sorted({round(float(np.min(e['scale'])), 9) for e in r1['events'] if e['type'] == 'release'})
    ctx.stat('distinct_noise_scales_per_run:' + case['mech'], len(scales))
    if case['mech'] == 'aim' and len(scales) >= 3:
        ctx.tag('aim_budget_annealing_branch_taken')   # sigma halved at least once besides the final "use the rest" round
    key = 'eps' if cfg['accounting'] == 'pure' else 'rho'
    for kind, rows2 in case['neighbours']:
        r2 = H.run(cfg, case['attrs'], case['shape'], rows2, 'replay', case['private_seed'], case['post_seed'], replay=r1['events'])
        if r2['mismatch'] or r2['error'] or len(r2['events']) != len(r1['events']):
            ctx.mon('pair_not_accountable')   # control flow diverged: decided by C06, not charged here
            continue
        ch = privacy.charges(r1['events'], r2['events'])
        if any(c.get('unattributable') for c in ch):
            ctx.mon('pair_not_accountable')   # noise broadcast over part of a release in a pattern the accountant has no rule for
            continue
        if any(c.get('shared_noise') for c in ch):
            ctx.tag('one_noise_draw_shared_by_several_cells')
        spent = float(sum(c[key] for c in ch))
        ctx.stat('budget_fraction:' + case['mech'], spent / B)
        by_type = {}
        for c in ch:
            by_type[c['type']] = by_type.get(c['type'], 0.0) + c[key]
        ctx.check(spent <= B * (1 + 1e-6), 'budget', 'overspend',
                  '%s (eps=%g, delta=%g, %s neighbour, outcomes %s): accumulated %s = %.6g, budget %.6g (%.4f of it); by event type %r' % (
                      case['mech'], cfg['eps'], cfg['delta'], kind, case['inject'], key, spent, B, spent / B,
                      {k: round(v / B, 4) for k, v in by_type.items()}), mech=case['mech'], fraction=spent / B, neighbour=kind)
        ctx.tag('neighbour:' + kind)


TECHNIQUE = 'runtime monitoring (relational): paired executions on neighbouring datasets with recorded/replayed random outcomes; an online accountant charges every observed release and selection and compares with an independent zCDP budget'
LEVEL_TEXT = ('Held on the pairs observed: for every shipped mechanism, parameter setting, injected outcome sequence and neighbour '
              'driven, the privacy cost accumulated over all noisy releases and private selections - charged by the actual change of '
              'the released statistic / selection probabilities between D and D\' - stays within the budget implied by (eps, delta). '
              'The monitor checks the outcome paths it drives (sampled, zero / 5-sigma noise, least-likely / uniform selections), '
              'not the supremum over all of them.')
LEVEL_NOTE = 'Trusts the harness accountant (CKS bound, own bisection) and the per-pair charging rules; depends on the three environment adapters.'
