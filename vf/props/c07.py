"""C07 - zCDP <-> (epsilon, delta) conversions are sound, tight and mutually inverse.

Reference models: the exact delta of the Gaussian mechanism (log space) and an independent
minimiser of the Canonne-Kamath-Steinke Renyi-order bound (vf.oracles).  Cases are rows /
columns of log grids over the quantifier's box plus random points; monotonicity is judged on
adjacent grid points.
"""
import math

import numpy as np

from .. import env, oracles

ID = 'C07'
COUNT_UNITS = True
RULE = ('unit = one (rho, eps, delta) grid or random point at which one of the conversions is evaluated and judged; '
        'rows and columns of log grids over rho in [1e-6,1e2], eps in [1e-3,1e2], delta in [1e-15,0.5] '
        '(cdp_rho/cdp_eps: 17x15 quick, 81x76 thorough; cdp_delta: 97x91 quick, 321x301 thorough) plus log-uniform '
        'random points; grid points are distinct by construction, random ones by content hash')
ANCHORS = ['cdp_delta', 'cdp_eps', 'cdp_rho']
DECIDING = ['budget_sound', 'delta_upper_bounds_gaussian', 'delta_is_cks_optimum', 'monotone', 'inverse']
ASSUMPTIONS = ['exact Gaussian delta evaluated with scipy.special.log_ndtr (cross-checked with mpmath at 50 digits on a sample)',
               'points whose exact delta is below 1e-300 are recorded but not judged (cdp_delta underflows to 0 there)',
               'tightness judged where the optimum is <= 0.5 (the documented alpha >= 1.01 clamp binds only above 0.9)',
               'inverse relations judged only where the inverse exists, i.e. cdp_eps(rho, delta) > 0']

GRID = {'quick': dict(ne=17, nd=15, nr=17, dense_r=97, dense_e=91, nrand=64, per_rand=6),
        'thorough': dict(ne=81, nd=76, nr=81, dense_r=321, dense_e=301, nrand=640, per_rand=12)}


def _ncases(t):
    g = GRID[t]
    return g['ne'] + g['nd'] + g['nr'] + g['nd'] + g['dense_r'] + g['dense_e'] + g['nrand']


PLAN = {
    'quick': dict(cases=_ncases('quick'), budget_s=180, case_timeout=300, min_cases=100),
    'thorough': dict(cases=_ncases('thorough'), budget_s=1500, case_timeout=1200, min_cases=900),
}
RHO = (1e-6, 1e2)
EPS = (1e-3, 1e2)
DELTA = (1e-15, 0.5)


def lg(lo, hi, n):
    return [float(v) for v in np.exp(np.linspace(math.log(lo), math.log(hi), n))]


def gen_case(rng, tier, idx):
    g = GRID[tier]
    kinds = [('rho_row', g['ne']), ('rho_col', g['nd']), ('eps_row', g['nr']), ('eps_col', g['nd']),
             ('delta_row', g['dense_r']), ('delta_col', g['dense_e']), ('random', g['nrand'])]
    for kind, n in kinds:
        if idx < n:
            break
        idx -= n
    c = dict(kind=kind, i=idx, tier=tier)
    if kind == 'random':
        c['points'] = [(float(math.exp(rng.uniform(math.log(RHO[0]), math.log(RHO[1])))),
                        float(math.exp(rng.uniform(math.log(EPS[0]), math.log(EPS[1])))),
                        float(math.exp(rng.uniform(math.log(DELTA[0]), math.log(DELTA[1]))))) for _ in range(g['per_rand'])]
    return c


def describe(case):
    return case


def _mod():
    return env.load_mechanism('cdp2adp')


def _log(x):
    return math.log(x) if x > 0 else -math.inf


def judge_delta(ctx, c, rho, eps):
    """cdp_delta at one point against both reference models.  Returns the value."""
    d = c.cdp_delta(rho, eps)
    ctx.units += 1
    lgd = oracles.log_gauss_delta(rho, eps)
    if lgd < math.log(1e-300):
        ctx.mon('points_below_1e-300_not_judged')
        return d
    ctx.check(0 <= d <= 1 and _log(d) >= lgd - 1e-9 * max(1.0, abs(lgd)), 'delta_upper_bounds_gaussian', 'unsound_delta',
              'cdp_delta(%r, %r)=%r is below the exact Gaussian delta exp(%r)' % (rho, eps, d, lgd), rho=rho, eps=eps)
    opt = oracles.cks_delta(rho, eps)
    if opt <= 0.5 and opt >= 1e-300:
        rel = abs(d / opt - 1)
        ctx.stat('tightness_rel_dev', rel)
        ctx.check(rel <= 1e-6, 'delta_is_cks_optimum', 'loose_delta',
                  'cdp_delta(%r, %r)=%r, optimum of the Renyi-order bound %r (rel %.3e)' % (rho, eps, d, opt, rel),
                  rho=rho, eps=eps)
    return d


def judge_rho(ctx, c, eps, delta, inverse=True):
    r = c.cdp_rho(eps, delta)
    ctx.units += 1
    d = c.cdp_delta(r, eps)
    # strict: the bisection maintains cdp_delta(rhomin, eps) <= delta as a loop invariant
    ctx.check(d <= delta, 'budget_sound', 'overspend',
              'cdp_rho(%r, %r)=%r implies delta %r > target' % (eps, delta, r, d), eps=eps, delta=delta)
    # the implied delta must itself be a sound and tight statement about a Gaussian with that budget
    lgd = oracles.log_gauss_delta(r, eps) if r > 0 else -math.inf
    if r > 0 and lgd >= math.log(1e-300):
        ctx.check(math.log(delta) >= lgd - 1e-9 * abs(lgd), 'budget_sound', 'overspend_gaussian',
                  'Gaussian with rho=cdp_rho(%r,%r)=%r has exact delta exp(%r) > target' % (eps, delta, r, lgd))
    if inverse:
        ref = oracles.rho_budget(eps, delta)
        rel = abs(r / ref - 1) if ref > 0 else abs(r)
        ctx.stat('budget_vs_independent_rel_dev', rel)
        ctx.check(rel <= 1e-6, 'inverse', 'budget_differs', 'cdp_rho(%r, %r)=%r, independent accountant %r' % (eps, delta, r, ref),
                  eps=eps, delta=delta)
        e2 = c.cdp_eps(r, delta)
        ctx.check(abs(e2 - eps) <= 1e-6 * eps, 'inverse', 'eps_of_rho', 'cdp_eps(cdp_rho(%r, %r), %r) = %r' % (eps, delta, delta, e2),
                  eps=eps, delta=delta)
    return r


def judge_eps(ctx, c, rho, delta, inverse=True):
    e = c.cdp_eps(rho, delta)
    ctx.units += 1
    d = c.cdp_delta(rho, e)
    ctx.check(e >= 0 and d <= delta, 'budget_sound', 'eps_unsound',
              'cdp_eps(%r, %r)=%r implies delta %r > target' % (rho, delta, e, d), rho=rho, delta=delta)
    exists = c.cdp_delta(rho, 0.0) > delta * (1 + 1e-6)
    if inverse and exists:
        ctx.check(e > 0 and abs(d - delta) <= 1e-6 * delta, 'inverse', 'delta_of_eps',
                  'cdp_delta(%r, cdp_eps(%r, %r)=%r) = %r, target %r' % (rho, rho, delta, e, d, delta), rho=rho, delta=delta)
        if EPS[0] <= e <= EPS[1]:
            r2 = c.cdp_rho(e, delta)
            ctx.check(abs(r2 - rho) <= 1e-6 * rho, 'inverse', 'rho_of_eps',
                      'cdp_rho(cdp_eps(%r, %r)=%r, %r) = %r' % (rho, delta, e, delta, r2), rho=rho, delta=delta)
    elif inverse:
        ctx.mon('inverse_does_not_exist_here')
    return e


def mono(ctx, xs, vals, increasing, what):
    for a in range(len(vals) - 1):
        lo, hi = (vals[a], vals[a + 1]) if increasing else (vals[a + 1], vals[a])
        ok = lo <= hi + 1e-9 * max(abs(hi), 1e-300)
        ctx.check(ok, 'monotone', 'not_monotone', '%s: value %r at %r, then %r at %r' % (what, vals[a], xs[a], vals[a + 1], xs[a + 1]))
        if not ok:
            break


def run_case(case, ctx):
    c = _mod()
    g = GRID[case['tier']]
    k, i = case['kind'], case['i']
    ctx.tag(k)
    epss, deltas, rhos = lg(*EPS, g['ne']), lg(*DELTA, g['nd']), lg(*RHO, g['nr'])
    if k == 'rho_row':
        eps = epss[i]
        vals = [judge_rho(ctx, c, eps, d) for d in deltas]
        mono(ctx, deltas, vals, True, 'cdp_rho(eps=%r, .) in delta' % eps)
    elif k == 'rho_col':
        delta = deltas[i]
        vals = [judge_rho(ctx, c, e, delta, inverse=False) for e in epss]
        mono(ctx, epss, vals, True, 'cdp_rho(., delta=%r) in eps' % delta)
    elif k == 'eps_row':
        rho = rhos[i]
        vals = [judge_eps(ctx, c, rho, d) for d in deltas]
        mono(ctx, deltas, vals, False, 'cdp_eps(rho=%r, .) in delta' % rho)
    elif k == 'eps_col':
        delta = deltas[i]
        vals = [judge_eps(ctx, c, r, delta, inverse=False) for r in rhos]
        mono(ctx, rhos, vals, True, 'cdp_eps(., delta=%r) in rho' % delta)
    elif k == 'delta_row':
        rho = lg(*RHO, g['dense_r'])[i]
        es = lg(*EPS, g['dense_e'])
        vals = [judge_delta(ctx, c, rho, e) for e in es]
        mono(ctx, es, vals, False, 'cdp_delta(rho=%r, .) in eps' % rho)
    elif k == 'delta_col':
        eps = lg(*EPS, g['dense_e'])[i]
        rs = lg(*RHO, g['dense_r'])
        vals = [c.cdp_delta(r, eps) for r in rs]
        ctx.units += len(rs)
        mono(ctx, rs, vals, True, 'cdp_delta(., eps=%r) in rho' % eps)
    else:
        from ..core import digest
        for rho, eps, delta in case['points']:
            judge_delta(ctx, c, rho, eps)
            judge_rho(ctx, c, eps, delta)
            judge_eps(ctx, c, rho, delta)
            ctx.unit_sigs.update({digest(('d', rho, eps)), digest(('r', eps, delta)), digest(('e', rho, delta))})
        # mpmath cross-check of the log_ndtr-based reference on this case's first point
        rho, eps, _ = case['points'][0]
        a, b = oracles.log_gauss_delta(rho, eps), oracles.log_gauss_delta_mp(rho, eps)
        if math.isfinite(a) and math.isfinite(b) and b > -600:
            ctx.check(abs(a - b) <= 1e-8 * max(1.0, abs(b)), 'reference_crosscheck', 'harness',
                      'log_ndtr reference %r vs mpmath %r at rho=%r eps=%r' % (a, b, rho, eps))
    if k != 'random':
        ctx.exhaustive_units = ctx.units


TECHNIQUE = 'runtime monitoring: the real cdp_delta / cdp_eps / cdp_rho evaluated over dense log grids and random points, judged against the exact Gaussian delta and an independent Renyi-order minimiser (reference models)'
LEVEL_TEXT = ('Held at every grid and random point evaluated: soundness of the returned budget (strict, log space), '
              'cdp_delta >= exact Gaussian delta, cdp_delta equal to the independently minimised Renyi-order bound within '
              '1e-6, monotonicity on adjacent grid points, and the three inverse relations within 1e-6 where the inverse '
              'exists. Grid sampling of a continuous box, not a proof.')
LEVEL_NOTE = 'Trusts scipy.special.log_ndtr (spot-checked against mpmath at 50 digits) and the harness transcription of the CKS bound.'
