"""C16 - approximate marginal oracles are normalised, and exact on acyclic structures.

Post-condition on the pseudo-marginals returned by RegionGraph (both modes) and FactorGraph
belief_propagation: finite, non-negative, summing to the total for arbitrary clique sets; equal
to the brute-force marginals when the clique set has the running-intersection property (GBP)
or the factor graph is a tree (LBP), after a diameter-dependent number of sweeps.
"""
import numpy as np

from .. import gen, oracles, models

ID = 'C16'
RULE = ('normalisation: arbitrary clique sets (C01 structure classes, 2-6 attrs, sizes 1-3) x potentials up to 1e6*N(0,1) x totals '
        'up to 1e6 x sweeps {1,5,30} x oracle {RegionGraph convex, RegionGraph Kikuchi, FactorGraph loopy} x 1-3 calls on one '
        'object; exactness: random junction trees given as clique sets (GBP; potentials on maximal cliques = class A, also on '
        'intersection regions = class B) and random tree factor graphs with unary leaves (LBP), sweeps >= 3*diameter + 60; '
        'distinct = content hash; non-trivial = >= 2 regions or >= 2 cells')
ANCHORS = ['RegionGraph.__init__', 'RegionGraph.build_graph', 'RegionGraph.generalized_belief_propagation',
           'RegionGraph.hazan_peng_shashua', 'FactorGraph.__init__', 'FactorGraph.loopy_belief_propagation',
           'FactorGraph.clique_marginals']
DECIDING = ['normalised', 'gbp_exact_on_junction_tree', 'lbp_exact_on_tree']
ASSUMPTIONS = ['exactness tolerance 1e-9*total after 3*diameter + 60 sweeps (GBP messages are damped by 1/2 per sweep)',
               'clique sets for exactness contain distinct cliques (a potentials dict cannot hold a duplicate key)',
               'class B (non-zero potentials on derived intersection regions of a Kikuchi region graph) is the open finding F8']
PLAN = {
    'quick': dict(cases=400, budget_s=120, case_timeout=300, min_cases=60),
    'thorough': dict(cases=8000, budget_s=900, case_timeout=600, min_cases=1333),
}
KINDS = ['norm_rg_convex', 'norm_rg_approx', 'norm_fg', 'exact_gbp_A', 'exact_gbp_A', 'exact_gbp_B', 'exact_lbp', 'exact_lbp']


def random_junction_tree(rng, names, shape_of):
    """Cliques with the running-intersection property: each new clique = a subset of an existing
    clique (the separator, non-empty) + new attributes.  Returns (cliques, tree diameter bound)."""
    names = list(names)
    k0 = int(rng.randint(1, 4))
    cliques = [tuple(names[:k0])]
    pos = k0
    while pos < len(names) and len(cliques) < 6:
        parent = cliques[int(rng.randint(len(cliques)))]
        ks = int(rng.randint(1, len(parent) + 1))
        if ks == len(parent) and len(parent) > 1:
            ks -= 1  # keep the parent maximal-or-equal; a full copy would be contained
        sep = [parent[i] for i in rng.permutation(len(parent))[:ks]]
        kn = int(rng.randint(1, 3))
        new = names[pos:pos + kn]
        pos += len(new)
        if not new:
            break
        cl = gen.shuffled(rng, tuple(sep) + tuple(new))
        cliques.append(cl)
    # drop cliques contained in others (can happen for size-1 parents)
    out = [c for c in cliques if not any(set(c) < set(o) for o in cliques)]
    out = list(dict.fromkeys(out))
    return out


def deep_nested_junction_tree(rng, names):
    """A junction tree whose separators form a strictly nested chain of sizes k, k-1, ..., 1 (the region graph
    then has k+1 levels): two cliques sharing a k-attribute core, then one clique per shorter prefix of the core."""
    names = list(names)
    k = min(int(rng.randint(3, 5)), len(names) - 3)
    core, rest = names[:k], names[k:]
    cliques = [tuple(core) + (rest[0],), tuple(core) + (rest[1],)]
    pos = 2
    for j in range(k - 1, 0, -1):
        if pos >= len(rest):
            break
        cliques.append(tuple(core[:j]) + (rest[pos],))
        pos += 1
    return [gen.shuffled(rng, c) if rng.rand() < 0.5 else c for c in cliques]


def random_tree_factor_graph(rng, names):
    names = list(names)
    cliques = []
    have = [names[0]]
    pos = 1
    while pos < len(names):
        anchor = have[int(rng.randint(len(have)))]
        kn = int(rng.randint(1, 3))
        new = names[pos:pos + kn]
        pos += len(new)
        cliques.append(gen.shuffled(rng, (anchor,) + tuple(new)))
        have += new
    for v in names:
        if rng.rand() < 0.4 or not cliques:
            cliques.append((v,))
    return list(dict.fromkeys(cliques))


def gen_case(rng, tier, idx):
    kind = KINDS[idx % len(KINDS)]
    total = float(gen.pick(rng, [1e-3, 1.0, 7.5, 1e3, 1e6]))
    if kind.startswith('norm'):
        attrs, shape = gen.domain(rng, 2, 6, sizes=(1, 2, 3), max_cells=1000)
        cls, cliques = gen.cliques(rng, attrs, gen.pick(rng, ['chain', 'star', 'cycle', 'grid', 'components', 'nested', 'permuted', 'hyper', 'full']))
        cliques = list(dict.fromkeys(tuple(c) for c in cliques)) or [(attrs[0],)]
        if kind == 'norm_fg':
            # the factor-graph oracle wants every attribute in some factor
            for a in attrs:
                if not any(a in c for c in cliques):
                    cliques.append((a,))
        scale = float(gen.pick(rng, [0.1, 1.0, 30.0, 1e3, 1e6]))
        return dict(kind=kind, attrs=attrs, shape=shape, cls=cls, cliques=cliques, total=total, scale=scale,
                    sweeps=int(gen.pick(rng, [1, 5, 30])), ncalls=int(gen.pick(rng, [1, 2, 3])),
                    damping=float(gen.pick(rng, [0.2, 0.5, 0.8])), pot_seed=int(rng.randint(2 ** 31)))
    d = int(rng.randint(2, 9))
    names = [gen.NAMES[i] for i in rng.permutation(len(gen.NAMES))[:d]]
    shape = [int(gen.pick(rng, [1, 2, 2, 3])) for _ in names]
    dom_order = [int(i) for i in rng.permutation(d)]
    attrs = [names[i] for i in dom_order]
    shape_d = [shape[i] for i in dom_order]
    if kind == 'exact_lbp':
        cliques = random_tree_factor_graph(rng, names)
    elif d >= 6 and rng.rand() < 0.5:
        cliques = deep_nested_junction_tree(rng, names)
        shape = [min(s_, 2) if i < 4 else s_ for i, s_ in enumerate(shape)]   # keep the 5-attribute cliques small
        shape_d = [shape[i] for i in dom_order]
    else:
        cliques = random_junction_tree(rng, names, None)
        for a in names:                      # attributes not covered stay unconstrained: give them a singleton clique
            if not any(a in c for c in cliques):
                cliques.append((a,))
    return dict(kind=kind, attrs=attrs, shape=shape_d, cls='junction_tree' if kind != 'exact_lbp' else 'tree_factor_graph',
                cliques=cliques, total=total, scale=float(gen.pick(rng, [0.1, 1.0, 3.0, 300.0])), sweeps=3 * (2 * len(cliques) + d) + 60,
                ncalls=int(gen.pick(rng, [1, 1, 2])), damping=0.5, pot_seed=int(rng.randint(2 ** 31)))


def describe(case):
    return {k: case[k] for k in ('kind', 'attrs', 'shape', 'cls', 'cliques', 'total', 'scale', 'sweeps', 'ncalls')}


def _valid(ctx, mu, total, what, info):
    ok = True
    for r in mu:
        v = np.asarray(mu[r].values, dtype=float)
        bad = None
        if not np.isfinite(v).all():
            bad = 'non-finite'
        elif (v < 0).any():
            bad = 'negative entry %r' % float(v.min())
        elif abs(float(v.sum()) - total) > 1e-9 * total:
            bad = 'sums to %r, total %r' % (float(v.sum()), total)
        if bad:
            ok = False
            ctx.check(False, 'normalised', 'not_normalised', '%s: pseudo-marginal on %r is %s' % (what, r, bad), **info)
            break
    if ok:
        ctx.check(True, 'normalised', '', '')
    return ok


def run_case(case, ctx):
    m = models.mbi()
    attrs, shape, total, kind = case['attrs'], case['shape'], case['total'], case['kind']
    dom = models.make_domain(attrs, shape)
    rng = np.random.RandomState(case['pot_seed'])
    ctx.tag('kind:' + kind)
    ctx.tag('cls:' + case['cls'])
    cliques = [tuple(c) for c in case['cliques']]
    size = lambda t: [shape[attrs.index(a)] for a in t]
    # LocalInference hands a ready-made oracle object its total by assignment (model.total = total): in a third of the
    # cases the oracle is therefore built with another total and gets the real one assigned afterwards
    late_total = (case['pot_seed'] % 3 == 0)
    t0 = 1.0 if (late_total and total != 1.0) else (17.0 if late_total else total)
    with np.errstate(all='ignore'):
        if kind in ('norm_fg', 'exact_lbp'):
            oracle = m.FactorGraph(dom, cliques, t0, convex=False, iters=case['sweeps'])
            regions = list(cliques)
        else:
            minimal = not (kind != 'norm_rg_convex' and case['pot_seed'] % 4 == 1)   # the saturated (minimal=False) message sets too
            if not minimal:
                ctx.tag('minimal=False')
            oracle = m.RegionGraph(dom, cliques, t0, minimal=minimal, convex=(kind == 'norm_rg_convex'), iters=case['sweeps'],
                                   convergence=0.0 if kind == 'norm_rg_convex' else 1e-3, damping=case['damping'])
            regions = list(oracle.cliques)
        if late_total:
            oracle.total = total
            ctx.tag('total_assigned_after_construction')
        if case['pot_seed'] % 2 == 0:
            # another oracle object over the same attribute names is constructed before this one is used (two models
            # alive in one process): it must not reach into this one
            others = [(a,) for a in attrs] + ([tuple(attrs[:2])] if len(attrs) >= 2 else [])
            if kind in ('norm_fg', 'exact_lbp'):
                m.FactorGraph(dom, others, 3.0, convex=False, iters=2)
            else:
                m.RegionGraph(dom, others, 3.0, convex=(kind == 'norm_rg_convex'), iters=2)
            ctx.tag('second_oracle_object_constructed_before_use')
    if len(regions) < 2 and int(np.prod(shape)) < 2:
        ctx.trivial = True
    maximal = [r for r in regions if not any(set(r) < set(o) for o in regions)]
    nonzero_on_submaximal = False
    for call in range(case['ncalls']):
        pots = []
        for r in regions:
            if kind == 'exact_gbp_A' and r not in maximal:
                arr = np.zeros(size(r))
            else:
                arr = rng.normal(size=size(r)) * case['scale']
                if r not in maximal and np.any(arr != 0):
                    nonzero_on_submaximal = True
            pots.append((r, arr))
        theta = m.CliqueVector({r: m.Factor(dom.project(r), np.array(a)) for r, a in pots})
        with np.errstate(all='ignore'):
            mu = oracle.belief_propagation(theta)
        info = dict(case_kind=kind, nonzero_on_submaximal=bool(nonzero_on_submaximal), oracle=type(oracle).__name__)
        what = '%s call %d (%d sweeps, scale %g)' % (kind, call, case['sweeps'], case['scale'])
        if not ctx.check(set(mu.keys()) == set(regions), 'keys', 'keys', '%s: marginals on %r, regions %r' % (what, list(mu.keys()), regions), **info):
            return
        if not _valid(ctx, mu, total, what, info):
            return
        if kind.startswith('exact'):
            P = oracles.joint(attrs, shape, pots, total)
            worst = 0.0
            for r in regions:
                at, v = models.factor_parts(mu[r])
                worst = max(worst, models.maxdiff(v, oracles.marginal(P, attrs, list(at))))
            ctx.stat('exactness_error_over_total:' + kind, worst / total)
            mon = 'lbp_exact_on_tree' if kind == 'exact_lbp' else 'gbp_exact_on_junction_tree'
            ctx.check(worst <= 1e-9 * total, mon, 'not_exact',
                      '%s: pseudo-marginals differ from the exact marginals by %.3e (total %g) on cliques %r' % (what, worst, total, cliques), **info)
            if ctx.failures:
                return


def _f8(case, failure):
    """F8: a Kikuchi region graph's parent-region beliefs ignore the potentials of their sub-regions."""
    d = failure.get('data', {})
    return (failure['kind'] == 'not_exact' and case.get('kind') == 'exact_gbp_B' and d.get('oracle') == 'RegionGraph'
            and bool(d.get('nonzero_on_submaximal')))


FINDINGS = {'F8': _f8}


def fixed_cases(tier):
    w = dict(kind='exact_gbp_B', attrs=['c', 'a', 'bb'], shape=[2, 2, 2], cls='junction_tree', cliques=[('c', 'a'), ('c', 'bb')],
             total=1.0, scale=1.0, sweeps=120, ncalls=1, damping=0.5, pot_seed=11)
    # F12 (repaired): duplicated region under another attribute order made the convex oracle overflow
    f12 = dict(kind='norm_rg_convex', attrs=['bb', 'd4', 'g', 'c'], shape=[2, 3, 2, 2], cls='hyper',
               cliques=[('d4', 'c', 'g'), ('d4', 'c'), ('g', 'c'), ('bb', 'c', 'g')], total=1000.0, scale=3.0, sweeps=600, ncalls=1,
               damping=0.2, pot_seed=1)
    return [('witness:F8', w), ('fixed:F12', f12)]


TECHNIQUE = 'runtime monitoring: post-condition on the pseudo-marginals of the real RegionGraph / FactorGraph oracles (normalisation always; equality with a brute-force joint on junction-tree clique sets and tree factor graphs)'
LEVEL_TEXT = ('Held on the calls observed: every pseudo-marginal is finite, non-negative and sums to the total for arbitrary clique '
              'sets, potentials up to 1e6 and 1-30 sweeps, including repeated calls on one object; on random junction-tree clique '
              'sets (potentials on the cliques) generalised BP and on random tree factor graphs loopy BP return the brute-force '
              'marginals within 1e-9*total. Non-zero potentials on derived intersection regions are the recorded open finding F8.')
LEVEL_NOTE = 'Trusts the brute-force joint; the junction-tree / tree-factor-graph generators build the acyclic structure by construction.'
