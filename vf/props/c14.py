"""C14 - factor algebra is addressed by attribute name, never by position.

Reference model: a factor is a dict {assignment tuple -> float}; every operation is re-done in
pure Python by iterating over the joint assignments of the result domain (no reshaping, no
broadcasting).  Each case draws two factors over arbitrary ordered, overlapping attribute
subsets and evaluates every operation of the quantifier on them.
"""
import itertools
import math

import numpy as np

from .. import gen, models

ID = 'C14'
RULE = ('two factors over random ordered subsets (0-4 attributes each, sizes 1-4, overlap from disjoint to '
        'identical to nested) of a 6-attribute pool; every operation of the quantifier evaluated once per case with '
        'random arguments; distinct = content hash; non-trivial = merged domain has >= 2 cells')
ANCHORS = ['Factor.expand', 'Factor.transpose', 'Factor.project', 'Factor.sum', 'Factor.logsumexp', 'Factor.logaddexp',
           'Factor.max', 'Factor.condition', 'Factor.copy', 'Factor.__mul__', 'Factor.__add__', 'Factor.__iadd__',
           'Factor.__imul__', 'Factor.__sub__', 'Factor.__truediv__', 'Factor.exp', 'Factor.log',
           'CliqueVector.combine', 'CliqueVector.__add__', 'CliqueVector.__sub__', 'CliqueVector.__mul__',
           'CliqueVector.dot', 'CliqueVector.exp', 'CliqueVector.log']
DECIDING = ['binary', 'aggregate', 'project', 'condition', 'expand', 'transpose', 'inplace', 'unary', 'copy',
            'cliquevector', 'combine']
ASSUMPTIONS = ['factor / factor is defined for divisor domain within dividend domain, 0 where the divisor is 0 (divisors >= 0)',
               'log(out=...) vs log() compared on values >= 1e-80 (the pure form adds 1e-100 by design)',
               'finite operands for subtraction (the -inf convention is exercised by C01 / C10)',
               'rtol 1e-12 (1e-10 for logsumexp / logaddexp whose reference is a python math.log of a sum); sums additionally within 4e-15 * sum|terms| (cancellation)']
PLAN = {
    'quick': dict(cases=320, budget_s=60, case_timeout=60, min_cases=80),
    'thorough': dict(cases=12000, budget_s=600, case_timeout=120, min_cases=2000),
}
POOL = ['p', 'q', 'r', 's', 't', 'u']


def gen_case(rng, tier, idx):
    sizes = {a: int(gen.pick(rng, [1, 2, 2, 3, 3, 4])) for a in POOL}
    mode = gen.pick(rng, ['random', 'random', 'disjoint', 'identical', 'nested', 'permuted_identical', 'scalar'])
    perm = lambda k: [POOL[i] for i in rng.permutation(len(POOL))[:k]]
    if mode == 'random':
        fa, ga = perm(int(rng.randint(1, 5))), perm(int(rng.randint(1, 5)))
    elif mode == 'disjoint':
        p = perm(6)
        k = int(rng.randint(1, 4))
        fa, ga = p[:k], p[k:k + int(rng.randint(1, 4))]
    elif mode == 'identical':
        fa = perm(int(rng.randint(1, 5)))
        ga = list(fa)
    elif mode == 'permuted_identical':
        fa = perm(int(rng.randint(2, 5)))
        ga = [fa[i] for i in rng.permutation(len(fa))]
    elif mode == 'nested':
        fa = perm(int(rng.randint(2, 5)))
        ga = [fa[i] for i in rng.permutation(len(fa))[:int(rng.randint(1, len(fa)))]]
    else:
        fa, ga = perm(int(rng.randint(1, 4))), []
    scale = float(gen.pick(rng, [1.0, 1.0, 30.0, 1e-3]))
    fv = rng.normal(size=[sizes[a] for a in fa]) * scale
    gv = rng.normal(size=[sizes[a] for a in ga]) * scale
    return dict(sizes=sizes, fa=fa, ga=ga, fv=fv, gv=gv, mode=mode, scale=scale, sub_seed=int(rng.randint(2 ** 31)))


def describe(case):
    return dict(f_attrs=case['fa'], g_attrs=case['ga'], sizes=case['sizes'], mode=case['mode'], scale=case['scale'])


# -- reference model --------------------------------------------------------

def to_dict(attrs, arr):
    arr = np.asarray(arr)
    return {idx: float(arr[idx]) for idx in np.ndindex(*arr.shape)}


def assignments(attrs, sizes):
    return itertools.product(*[range(sizes[a]) for a in attrs])


def restrict(assign_attrs, assign, attrs):
    return tuple(assign[assign_attrs.index(a)] for a in attrs)


def lse(vals):
    vals = list(vals)
    m = max(vals)
    if m == -math.inf:
        return -math.inf
    return m + math.log(sum(math.exp(v - m) for v in vals))


def check_factor(ctx, monitor, what, fac, want_attrs, ref, sizes, rtol=1e-12, strict_order=True, atol=0.0):
    """fac: repository Factor; ref: function(assignment over want_attrs) -> float."""
    at, v = models.factor_parts(fac)
    if strict_order and tuple(at) != tuple(want_attrs):
        return ctx.check(False, monitor, 'layout', '%s: axes %r, expected %r' % (what, at, tuple(want_attrs)))
    if set(at) != set(want_attrs) or len(at) != len(want_attrs):
        return ctx.check(False, monitor, 'attrs', '%s: attributes %r, expected %r' % (what, at, tuple(want_attrs)))
    if tuple(v.shape) != tuple(sizes[a] for a in at):
        return ctx.check(False, monitor, 'shape', '%s: shape %r for attrs %r' % (what, v.shape, at))
    at = list(at)
    for assign in assignments(at, sizes):
        want = ref(restrict(at, assign, want_attrs))
        got = float(v[assign])
        if not _feq(got, want, rtol) and not (atol > 0 and abs(got - want) <= atol):
            return ctx.check(False, monitor, 'value', '%s: at %r got %r, expected %r' % (
                what, dict(zip(at, assign)), got, want))
    return ctx.check(True, monitor, '', '')


def _feq(got, want, rtol):
    if math.isnan(want) or math.isnan(got):
        return math.isnan(want) and math.isnan(got)
    if math.isinf(want) or math.isinf(got):
        return got == want
    return abs(got - want) <= rtol * max(abs(want), abs(got)) + 1e-300


def run_case(case, ctx):
    m = models.mbi()
    Factor, Domain, CliqueVector = m.Factor, m.Domain, m.CliqueVector
    sizes = case['sizes']
    rng = np.random.RandomState(case['sub_seed'])
    fa, ga = list(case['fa']), list(case['ga'])
    dom = lambda attrs: Domain(list(attrs), [sizes[a] for a in attrs])
    mk = lambda attrs, arr: Factor(dom(attrs), np.array(arr, dtype=float))
    F = lambda: mk(fa, case['fv'])
    G = lambda: mk(ga, case['gv'])
    fd, gd = to_dict(fa, case['fv']), to_dict(ga, case['gv'])
    merged = fa + [a for a in ga if a not in fa]
    fval = lambda mattrs, asg: fd[restrict(mattrs, asg, fa)]
    gval = lambda mattrs, asg: gd[restrict(mattrs, asg, ga)]
    ctx.tag('mode:' + case['mode'])
    if int(np.prod([sizes[a] for a in merged])) < 2:
        ctx.trivial = True

    # ---- binary, factor x factor ----------------------------------------
    bins = [('+', lambda a, b: a + b, lambda x, y: x + y, 1e-12),
            ('-', lambda a, b: a - b, lambda x, y: x - y, 1e-12),
            ('*', lambda a, b: a * b, lambda x, y: x * y, 1e-12),
            ('logaddexp', lambda a, b: a.logaddexp(b), lambda x, y: lse([x, y]), 1e-10)]
    for name, op, sop, rt in bins:
        res = op(F(), G())
        check_factor(ctx, 'binary', 'f %s g' % name, res, merged,
                     lambda asg, sop=sop: sop(fval(merged, asg), gval(merged, asg)), sizes, rt)
        merged_r = ga + [a for a in fa if a not in ga]
        res = op(G(), F())
        check_factor(ctx, 'binary', 'g %s f' % name, res, merged_r,
                     lambda asg, sop=sop: sop(gval(merged_r, asg), fval(merged_r, asg)), sizes, rt)
    # division: divisor domain within dividend domain, divisor >= 0 with some zeros
    sub = [fa[i] for i in rng.permutation(len(fa))[:int(rng.randint(0, len(fa) + 1))]]
    dv = np.array(np.abs(rng.normal(size=[sizes[a] for a in sub])), dtype=float)
    dv = np.where(rng.rand(*dv.shape) < 0.25, 0.0, dv)
    dd = to_dict(sub, dv)
    res = F() / mk(sub, dv)
    check_factor(ctx, 'binary', 'f / h (h over %r)' % (sub,), res, fa,
                 lambda asg: (fd[asg] / dd[restrict(fa, asg, sub)]) if dd[restrict(fa, asg, sub)] > 0 else 0.0, sizes)
    # scalar forms
    c = float(rng.normal() * 3) or 1.5
    for name, op, sop in [('f+c', lambda a: a + c, lambda x: x + c), ('c+f', lambda a: c + a, lambda x: c + x),
                          ('f*c', lambda a: a * c, lambda x: x * c), ('c*f', lambda a: c * a, lambda x: c * x),
                          ('f-c', lambda a: a - c, lambda x: x - c), ('f/c', lambda a: a / c, lambda x: x / c)]:
        check_factor(ctx, 'binary', name + ' (c=%r)' % c, op(F()), fa, lambda asg, sop=sop: sop(fd[asg]), sizes)

    # a sum of signed terms is accurate relative to the sum of their magnitudes, not to the (possibly cancelling) result
    abs_sum = float(sum(abs(v) for v in fd.values()))
    # ---- aggregation over every subset ----------------------------------
    subsets = [s for k in range(0, len(fa) + 1) for s in itertools.combinations(fa, k)]
    if len(subsets) > 8:
        subsets = [subsets[i] for i in rng.permutation(len(subsets))[:8]]
    for s in subsets:
        s = [s[i] for i in rng.permutation(len(s))]
        keep = [a for a in fa if a not in s]
        for name, agg, rt in [('sum', sum, 1e-12), ('logsumexp', lse, 1e-10), ('max', max, 1e-12)]:
            res = getattr(F(), name)(list(s))
            def ref(asg, agg=agg):
                fixed = dict(zip(keep, asg))
                return agg([fd[tuple(fixed[a] if a in fixed else z[s.index(a)] for a in fa)]
                            for z in assignments(s, sizes)])
            check_factor(ctx, 'aggregate', 'f.%s(%r)' % (name, s), res, keep, ref, sizes, rt, atol=(abs_sum * 4e-15 if name == 'sum' else 0.0))
    for name, agg, rt in [('sum', sum, 1e-12), ('logsumexp', lse, 1e-10), ('max', max, 1e-12)]:
        got = float(getattr(F(), name)())
        want = agg(list(fd.values()))
        ctx.check(_feq(got, want, rt) or (name == 'sum' and abs(got - want) <= abs_sum * 4e-15), 'aggregate', 'value',
                  'f.%s() got %r want %r' % (name, got, want))

    # ---- project (both aggregations, any ordering) -------------------------
    for _ in range(3):
        k = int(rng.randint(0, len(fa) + 1))
        tgt = [fa[i] for i in rng.permutation(len(fa))[:k]]
        rest = [a for a in fa if a not in tgt]
        for agg_name, agg, rt in [('sum', sum, 1e-12), ('logsumexp', lse, 1e-10)]:
            res = F().project(list(tgt), agg=agg_name) if agg_name != 'sum' or rng.rand() < 0.5 else F().project(tuple(tgt))
            def ref(asg, agg=agg):
                fixed = dict(zip(tgt, asg))
                return agg([fd[tuple(fixed[a] if a in fixed else z[rest.index(a)] for a in fa)]
                            for z in assignments(rest, sizes)])
            check_factor(ctx, 'project', 'f.project(%r, %s)' % (tgt, agg_name), res, tgt, ref, sizes, rt,
                         atol=(abs_sum * 4e-15 if agg_name == 'sum' else 0.0))

    # ---- condition ---------------------------------------------------------
    for _ in range(2):
        k = int(rng.randint(0, len(fa) + 1))
        ev_attrs = [fa[i] for i in rng.permutation(len(fa))[:k]]
        evidence = {a: int(rng.randint(sizes[a])) for a in ev_attrs}
        keep = [a for a in fa if a not in evidence]
        res = F().condition(dict(evidence))
        check_factor(ctx, 'condition', 'f.condition(%r)' % evidence, res, keep,
                     lambda asg: fd[tuple(evidence[a] if a in evidence else asg[keep.index(a)] for a in fa)], sizes)

    # ---- expand / transpose -----------------------------------------------
    extra = [a for a in POOL if a not in fa]
    extra = [extra[i] for i in rng.permutation(len(extra))[:int(rng.randint(0, min(3, len(extra)) + 1))]]
    big = fa + extra
    big = [big[i] for i in rng.permutation(len(big))]
    res = F().expand(dom(big))
    check_factor(ctx, 'expand', 'f.expand(%r)' % big, res, big, lambda asg: fd[restrict(big, asg, fa)], sizes)
    tp = [fa[i] for i in rng.permutation(len(fa))]
    res = F().transpose(list(tp))
    check_factor(ctx, 'transpose', 'f.transpose(%r)' % tp, res, tp, lambda asg: fd[restrict(tp, asg, fa)], sizes)

    # ---- in-place variants agree with the pure ones -------------------------
    sub = [fa[i] for i in rng.permutation(len(fa))[:int(rng.randint(0, len(fa) + 1))]]
    hv = rng.normal(size=[sizes[a] for a in sub])
    hd = to_dict(sub, hv)
    for name, sop in [('+=', lambda x, y: x + y), ('*=', lambda x, y: x * y)]:
        a = F()
        before = a
        if name == '+=':
            a += mk(sub, hv)
        else:
            a *= mk(sub, hv)
        ctx.check(a is before, 'inplace', 'identity', 'f %s h rebinds instead of updating in place' % name)
        check_factor(ctx, 'inplace', 'f %s h (h over %r)' % (name, sub), a, fa,
                     lambda asg, sop=sop: sop(fd[asg], hd[restrict(fa, asg, sub)]), sizes)
        a = F()
        if name == '+=':
            a += c
        else:
            a *= c
        check_factor(ctx, 'inplace', 'f %s c' % name, a, fa, lambda asg, sop=sop: sop(fd[asg], c), sizes)

    # ---- exp / log / copy, with and without out ------------------------------
    res = F().exp()
    check_factor(ctx, 'unary', 'f.exp()', res, fa, lambda asg: math.exp(fd[asg]), sizes)
    out = Factor.zeros(dom(fa))
    r2 = F().exp(out=out)
    ctx.check(r2 is out, 'unary', 'identity', 'exp(out=) did not return out')
    check_factor(ctx, 'unary', 'f.exp(out=)', out, fa, lambda asg: math.exp(fd[asg]), sizes)
    pos = np.exp(case['fv'])  # strictly positive values >= e^-120
    pd_ = to_dict(fa, pos)
    res = mk(fa, pos).log()
    check_factor(ctx, 'unary', 'f.log()', res, fa, lambda asg: math.log(pd_[asg] + 1e-100), sizes)
    out = Factor.zeros(dom(fa))
    mk(fa, pos).log(out=out)
    check_factor(ctx, 'unary', 'f.log(out=)', out, fa, lambda asg: math.log(pd_[asg]), sizes,
                 rtol=1e-12)
    orig = F()
    cp = orig.copy()
    cp.values[...] = cp.values + 1.0
    check_factor(ctx, 'copy', 'copy() aliasing', orig, fa, lambda asg: fd[asg], sizes)
    out = Factor.zeros(dom(fa))
    r3 = orig.copy(out=out)
    ctx.check(r3 is out, 'copy', 'identity', 'copy(out=) did not return out')
    check_factor(ctx, 'copy', 'copy(out=)', out, fa, lambda asg: fd[asg], sizes)
    got = F().datavector()
    ctx.check(got.shape == (len(fd),) and all(_feq(float(g), w, 1e-15) for g, w in zip(got, fd.values())),
              'copy', 'datavector', 'Factor.datavector() is not the C-order flattening')

    # ---- CliqueVector ----------------------------------------------------------
    cliques = [tuple(fa), tuple(ga)] if tuple(fa) != tuple(ga) and ga else [tuple(fa)]
    vals1 = {cl: rng.normal(size=[sizes[a] for a in cl]) for cl in cliques}
    vals2 = {}
    cv2 = {}
    for cl in cliques:
        p = [cl[i] for i in rng.permutation(len(cl))]  # operand stored in permuted attribute order
        vals2[cl] = (p, rng.normal(size=[sizes[a] for a in p]))
        cv2[cl] = mk(p, vals2[cl][1])
    A = lambda: CliqueVector({cl: mk(cl, vals1[cl]) for cl in cliques})
    B = lambda: CliqueVector(dict(cv2))
    d1 = {cl: to_dict(cl, vals1[cl]) for cl in cliques}
    d2 = {cl: to_dict(vals2[cl][0], vals2[cl][1]) for cl in cliques}
    b_at = lambda cl, asg: d2[cl][restrict(list(cl), asg, vals2[cl][0])]
    for name, res, sop in [('A+B', A() + B(), lambda x, y: x + y), ('A-B', A() - B(), lambda x, y: x - y)]:
        ok = set(res.keys()) == set(cliques)
        ctx.check(ok, 'cliquevector', 'keys', '%s keys %r' % (name, list(res.keys())))
        for cl in cliques if ok else []:
            check_factor(ctx, 'cliquevector', '%s on %r' % (name, cl), res[cl], list(cl),
                         lambda asg, cl=cl, sop=sop: sop(d1[cl][asg], b_at(cl, asg)), sizes, strict_order=False)
    for name, res, sop in [('c*A', c * A(), lambda x: c * x), ('A*c', A() * c, lambda x: x * c),
                           ('A+c', A() + c, lambda x: x + c), ('A.exp', A().exp(), math.exp)]:
        for cl in cliques:
            check_factor(ctx, 'cliquevector', '%s on %r' % (name, cl), res[cl], list(cl),
                         lambda asg, cl=cl, sop=sop: sop(d1[cl][asg]), sizes)
    posv = {cl: np.exp(vals1[cl]) for cl in cliques}
    posd = {cl: to_dict(cl, posv[cl]) for cl in cliques}
    posA = CliqueVector({cl: mk(cl, posv[cl]) for cl in cliques}).log()
    for cl in cliques:
        check_factor(ctx, 'cliquevector', 'A.log on %r' % (cl,), posA[cl], list(cl),
                     lambda asg, cl=cl: math.log(posd[cl][asg] + 1e-100), sizes)
    got = float(A().dot(B()))
    want = sum(d1[cl][asg] * b_at(cl, asg) for cl in cliques for asg in assignments(list(cl), sizes))
    ctx.check(_feq(got, want, 1e-10) or abs(got - want) < 1e-12, 'cliquevector', 'dot', 'A.dot(B) got %r want %r' % (got, want))
    ctx.check(A().size() == sum(len(d1[cl]) for cl in cliques), 'cliquevector', 'size', 'CliqueVector.size()')

    # ---- combine: sub-clique operands in permuted attribute order -------------------
    base = A()
    others = {}
    hosted_ref = []
    for i in range(int(rng.randint(1, 4))):
        host = cliques[int(rng.randint(len(cliques)))]
        if rng.rand() < 0.2:
            o = [a for a in POOL if a not in fa and a not in ga][:1]  # no host: must be ignored
            if not o:
                continue
        else:
            o = [host[j] for j in rng.permutation(len(host))[:int(rng.randint(0, len(host) + 1))]]
        o = tuple(o)
        if o in others:
            continue
        ov = rng.normal(size=[sizes[a] for a in o])
        others[o] = mk(list(o), ov)
        if any(set(o) <= set(cl) for cl in cliques):
            hosted_ref.append((list(o), to_dict(list(o), ov)))
    before_keys = list(base.keys())
    base.combine(CliqueVector(others))
    ctx.check(list(base.keys()) == before_keys, 'combine', 'keys', 'combine changed the key set')
    allattrs = list(dict.fromkeys(list(fa) + list(ga)))
    good = True
    for asg in assignments(allattrs, sizes):
        got = sum(float(base[cl].values[restrict(allattrs, asg, list(base[cl].domain.attrs))]) for cl in cliques)
        want = sum(d1[cl][restrict(allattrs, asg, list(cl))] for cl in cliques) + \
            sum(od[restrict(allattrs, asg, o)] for o, od in hosted_ref)
        if not (abs(got - want) <= 1e-9 * max(1.0, abs(want))):
            good = False
            ctx.check(False, 'combine', 'value', 'after combine the total log-score at %r is %r, expected %r (others on %r)'
                      % (dict(zip(allattrs, asg)), got, want, [list(k) for k in others]))
            break
    if good:
        ctx.check(True, 'combine', '', '')


TECHNIQUE = 'runtime monitoring: differential execution of every Factor / CliqueVector operation against a pure-Python dictionary-of-assignments reference model'
LEVEL_TEXT = ('Held on the operation instances observed (~70 per case): results of the real Factor / CliqueVector methods '
              'compared cell by cell, addressed by attribute name, with a dictionary reference; operands in arbitrary '
              'attribute order with every overlap pattern. Sampling over a 6-attribute pool with sizes 1-4.')
LEVEL_NOTE = 'Trusts python float arithmetic and math.exp/log in the reference; tolerances 1e-12 (1e-10 for log-sum forms).'
