"""C15 - datasets vectorise to their contingency table; projection commutes; domain laws.

Reference model: collections.Counter over row tuples (weights summed in Python), plain numpy
sum / transpose of that table, and set / product identities for Domain.
"""
import itertools
from collections import Counter

import numpy as np

from .. import gen, models

ID = 'C15'
RULE = ('(size laws also on 8-70 attribute domains with sizes up to 65536, too large to vectorise) domain of 1-5 attributes with sizes 1-6 x record-set class {empty, one row, duplicates, boundary values, '
        'random} x weights {None, positive, zeros, fractional} x extra / reordered data-frame columns; per case every '
        'projection tuple (subsets x orderings, capped at 24) and every domain law; distinct = content hash; '
        'non-trivial = at least one record and >= 2 cells')
ANCHORS = ['Dataset.__init__', 'Dataset.project', 'Dataset.datavector', 'Dataset.drop', 'Domain.project',
           'Domain.marginalize', 'Domain.merge', 'Domain.invert', 'Domain.canonical', 'Domain.size', 'Domain.sort',
           'Domain.axes', 'Domain.transpose', 'Domain.contains', 'Domain.fromdict']
DECIDING = ['datavector', 'projection_commutes', 'weights_carried', 'domain_laws']
ASSUMPTIONS = ['Dataset.project([]) is outside the operation (numpy.histogramdd rejects zero dimensions)',
               'counts compared exactly, weighted counts at rtol 1e-12']
PLAN = {
    'quick': dict(cases=1600, budget_s=60, case_timeout=60, min_cases=300),
    'thorough': dict(cases=100000, budget_s=600, case_timeout=60, min_cases=16666),
}


def gen_case(rng, tier, idx):
    attrs, shape = gen.domain(rng, 1, 5, sizes=(1, 2, 3, 4, 5, 6), max_cells=5000, names=['w', 'x', 'y', 'z', 'v'])
    d = len(attrs)
    rc = gen.pick(rng, ['empty', 'one', 'duplicates', 'boundary', 'random', 'random'])
    n = {'empty': 0, 'one': 1, 'duplicates': int(rng.randint(2, 40)), 'boundary': int(rng.randint(1, 30)),
         'random': int(rng.randint(1, 200))}[rc]
    if rc == 'duplicates':
        base = np.array([[rng.randint(s) for s in shape] for _ in range(max(1, n // 4))])
        rows = base[rng.randint(len(base), size=n)]
    elif rc == 'boundary':
        rows = np.array([[0 if rng.rand() < 0.5 else s - 1 for s in shape] for _ in range(n)])
    else:
        rows = np.array([[rng.randint(s) for s in shape] for _ in range(n)]).reshape(n, d)
    rows = rows.astype(int).reshape(n, d)
    wc = gen.pick(rng, ['none', 'none', 'positive', 'zeros', 'fractional'])
    if wc == 'none':
        w = None
    elif wc == 'positive':
        w = rng.randint(1, 10, size=n).astype(float)
    elif wc == 'zeros':
        w = (rng.rand(n) < 0.5).astype(float) * rng.rand(n)
    else:
        w = rng.rand(n) * 3
    extra = int(rng.randint(0, 3))
    col_perm = [int(i) for i in rng.permutation(d + extra)]
    return dict(attrs=attrs, shape=shape, rows=rows, weights=w, rc=rc, wc=wc, extra=extra, col_perm=col_perm,
                sub_seed=int(rng.randint(2 ** 31)))


def describe(case):
    return dict(attrs=case['attrs'], shape=case['shape'], records=int(case['rows'].shape[0]), record_class=case['rc'],
                weights=case['wc'], extra_columns=case['extra'], first_rows=case['rows'][:3])


def table(attrs, shape, rows, w):
    """Contingency table via Counter; python-float weight sums."""
    cnt = Counter()
    for i, r in enumerate(rows):
        cnt[tuple(int(v) for v in r)] += (1 if w is None else float(w[i]))
    T = np.zeros(tuple(shape), dtype=float)
    for k, v in cnt.items():
        T[k] = v
    return T


def run_case(case, ctx):
    import pandas as pd
    m = models.mbi()
    attrs, shape, rows, w = case['attrs'], case['shape'], case['rows'], case['weights']
    rng = np.random.RandomState(case['sub_seed'])
    d = len(attrs)
    n = rows.shape[0]
    ctx.tag('records:' + case['rc'])
    ctx.tag('weights:' + case['wc'])
    if n == 0 or int(np.prod(shape)) < 2:
        ctx.trivial = True
    cols = list(attrs) + ['extra%d' % i for i in range(case['extra'])]
    data = np.concatenate([rows, rng.randint(0, 7, size=(n, case['extra']))], axis=1) if case['extra'] else rows
    df = pd.DataFrame(data, columns=cols)
    df = df[[cols[i] for i in case['col_perm']]]
    dom = m.Domain(list(attrs), list(shape))
    ds = m.Dataset(df, dom, None if w is None else np.array(w))
    T = table(attrs, shape, rows, w)
    exact = w is None

    def same(got, ref):
        got = np.asarray(got, dtype=float)
        if got.shape != ref.shape:
            return False
        return bool(np.array_equal(got, ref)) if exact else bool(np.allclose(got, ref, rtol=1e-12, atol=1e-12))

    ctx.check(ds.records == n, 'datavector', 'records', 'records=%r for %d rows' % (ds.records, n))
    ctx.check(list(ds.df.columns) == list(attrs), 'datavector', 'columns',
              'Dataset.df columns %r are not the domain attributes %r' % (list(ds.df.columns), attrs))
    with np.errstate(all='ignore'):
        ctx.check(same(ds.datavector(flatten=False), T), 'datavector', 'table',
                  lambda: 'datavector(flatten=False) != contingency table (sum %r vs %r)' % (
                      float(np.sum(ds.datavector(False))), float(T.sum())))
        ctx.check(same(ds.datavector(), T.reshape(-1)), 'datavector', 'table', 'datavector() != flattened contingency table')

        # projections in any order
        tuples = [p for k in range(1, d + 1) for c in itertools.combinations(attrs, k) for p in itertools.permutations(c)]
        if len(tuples) > 24:
            tuples = [tuples[i] for i in rng.permutation(len(tuples))[:24]]
        for p in tuples:
            form = rng.randint(3)
            arg = list(p) if form == 0 else (tuple(p) if form == 1 else (p[0] if len(p) == 1 else list(p)))
            pr = ds.project(arg)
            ref = np.transpose(T.sum(axis=tuple(i for i, a in enumerate(attrs) if a not in p)),
                               [sorted(p, key=attrs.index).index(a) for a in p])
            ok = tuple(pr.domain.attrs) == tuple(p) and tuple(pr.domain.shape) == tuple(shape[attrs.index(a)] for a in p)
            ctx.check(ok, 'projection_commutes', 'domain', 'project(%r) has domain %r' % (arg, pr.domain))
            if ok:
                ctx.check(same(pr.datavector(flatten=False), ref), 'projection_commutes', 'table',
                          'project(%r).datavector != marginalised+transposed table' % (arg,))
                if w is not None:
                    ctx.check(pr.weights is not None and abs(float(np.sum(pr.datavector())) - float(np.sum(w))) <= 1e-9 * max(1, abs(float(np.sum(w)))),
                              'weights_carried', 'weights', 'project(%r) lost the record weights' % (arg,))
                else:
                    ctx.check(float(np.sum(pr.datavector())) == n, 'weights_carried', 'count', 'project(%r) does not count %d records' % (arg, n))
        # drop = project on the complement (needs at least one attribute left)
        if d >= 2:
            k = int(rng.randint(1, d))
            dropped = [attrs[i] for i in rng.permutation(d)[:k]]
            dr = ds.drop(dropped)
            keep = [a for a in attrs if a not in dropped]
            ref = T.sum(axis=tuple(i for i, a in enumerate(attrs) if a in dropped))
            ctx.check(tuple(dr.domain.attrs) == tuple(keep) and same(dr.datavector(flatten=False), ref),
                      'projection_commutes', 'drop', 'drop(%r) != marginalised table' % (dropped,))

    # ---- domain laws -----------------------------------------------------
    size = lambda at: int(np.prod([shape[attrs.index(a)] for a in at])) if len(at) else 1
    D = dom
    ok = True
    msgs = []

    def law(cond, msg):
        nonlocal ok
        ctx.mon('domain_law_evaluations')
        if not cond:
            ok = False
            msgs.append(msg)

    law(D.size() == size(attrs), 'size() != product of shape')
    law(len(D) == d and list(D) == list(attrs), 'len / iter')
    law(D == m.Domain(list(attrs), list(shape)), '__eq__ reflexive on equal content')
    law(D == m.Domain.fromdict(dict(zip(attrs, shape))), 'fromdict')
    for _ in range(6):
        k = int(rng.randint(0, d + 1))
        A = [attrs[i] for i in rng.permutation(d)[:k]]
        kb = int(rng.randint(0, k + 1))
        B = [A[i] for i in rng.permutation(k)[:kb]]
        pa = D.project(A)
        law(tuple(pa.attrs) == tuple(A) and tuple(pa.shape) == tuple(shape[attrs.index(a)] for a in A), 'project(%r)' % A)
        law(pa.project(B) == D.project(B), 'project o project for %r within %r' % (B, A))
        law(D.size(A) == size(A) and pa.size() == size(A), 'size(%r)' % A)
        comp = [a for a in attrs if a not in A]
        law(tuple(D.marginalize(A).attrs) == tuple(comp), 'marginalize(%r) != complement in domain order' % A)
        inv = list(D.invert(A))
        law(sorted(inv) == sorted(comp), 'invert(%r) is not the complement' % A)
        law(tuple(D.canonical(A)) == tuple(sorted(A, key=attrs.index)), 'canonical(%r)' % A)
        law(tuple(D.axes(A)) == tuple(attrs.index(a) for a in A), 'axes(%r)' % A)
        law(D.transpose(A) == D.project(A), 'transpose(%r) != project' % A)
        law(D.contains(pa) and (pa.contains(D) == (set(A) == set(attrs))), 'contains for %r' % A)
        for a in A:
            law(a in D and D[a] == shape[attrs.index(a)], '__contains__/__getitem__ %r' % a)
        # merge with an overlapping domain that also brings new attributes
        new_names = ['n1', 'n2']
        kn = int(rng.randint(0, 3))
        other_attrs = B + new_names[:kn]
        other_attrs = [other_attrs[i] for i in rng.permutation(len(other_attrs))]
        other_shape = [shape[attrs.index(a)] if a in attrs else 2 + new_names.index(a) for a in other_attrs]
        O = m.Domain(other_attrs, other_shape)
        mg = pa.merge(O)
        want_attrs = list(A) + [a for a in other_attrs if a not in A]
        law(list(mg.attrs) == want_attrs, 'merge attribute order %r, expected %r' % (mg.attrs, want_attrs))
        law(mg.size() == pa.size() * int(np.prod([s for a, s in zip(other_attrs, other_shape) if a not in A] or [1])),
            'merge size is not the product')
        law(set(O.merge(pa).attrs) == set(mg.attrs) and O.merge(pa).size() == mg.size(), 'merge not commutative on sets')
        C = m.Domain(comp, [shape[attrs.index(a)] for a in comp])
        law(set(pa.merge(O).merge(C).attrs) == set(pa.merge(O.merge(C)).attrs), 'merge associativity on attribute sets')
    s1 = D.sort('size')
    sz = [s1[a] for a in s1.attrs]
    law(sorted(s1.attrs) == sorted(attrs) and sz == sorted(sz) and all(s1[a] == D[a] for a in attrs)
        and s1.size() == D.size(), "sort('size') is not the same attributes in non-decreasing size")
    s2 = D.sort('name')
    law(list(s2.attrs) == sorted(attrs) and all(s2[a] == D[a] for a in attrs), "sort('name')")
    # a domain far too large to vectorise (the mechanisms size candidate models on such domains): sizes are exact integers
    import math
    hd = int(rng.randint(8, 71))
    hn = ['h%d' % i for i in range(hd)]
    hs = [int(gen.pick(rng, [2, 3, 10, 100, 1000, 65536])) for _ in hn]
    Hd = m.Domain(hn, hs)
    law(Hd.size() == math.prod(hs), 'size() of a %d-attribute domain is %r, the product of its sizes is %r' % (hd, Hd.size(), math.prod(hs)))
    hk = [hn[i] for i in rng.permutation(hd)[:int(rng.randint(0, hd + 1))]]
    law(Hd.size(hk) == math.prod(hs[hn.index(a)] for a in hk) and Hd.project(hk).size() == Hd.size(hk), 'size of a %d-attribute projection of a large domain' % len(hk))
    law(Hd.size(hk) * Hd.size(Hd.invert(hk)) == Hd.size(), 'size(A) * size(complement of A) != size() on a large domain')
    law(Hd.project(hk).merge(Hd.marginalize(hk)).size() == Hd.size(), 'merge of a projection with its complement does not have the size of the domain')
    ctx.check(ok, 'domain_laws', 'law', lambda: '; '.join(msgs[:4]))


TECHNIQUE = 'runtime monitoring: differential execution of Dataset / Domain operations against a Counter-based contingency table and set/product identities'
LEVEL_TEXT = ('Held on the cases observed: the real Dataset.datavector / project / drop and Domain operations compared '
              'with a Counter-built contingency table (counts exact, weights 1e-12) for every projection tuple of each '
              'generated dataset, including empty, duplicate, boundary-valued and weighted record sets and data frames '
              'with extra / reordered columns. Sampling over domains of <= 5 attributes.')
LEVEL_NOTE = 'Trusts collections.Counter, numpy sum/transpose and pandas column selection in the harness.'
