"""C13 - estimation is history-free; returned models are immutable snapshots.

History + executable model: a history of estimate calls is run on one real engine; the
executable model is the stateless estimator - a fresh engine given deep copies of the same
arguments.  Snapshots of every returned model's answers and SHA-256 digests of every
caller-owned object are compared after each later call.  A warm-start segment compares the
final loss of grown / changed measurement lists with the certified optimum (C03 oracle).
"""
import copy

import numpy as np
from scipy import sparse

from .. import gen, models, measure, estim, oracles
from ..core import array_digest
from ..models import quiet

ID = 'C13'
RULE = ('history of 3-6 estimate calls on one FactoredInference (warm_start off) with measurement sets that grow / shrink / '
        'are disjoint or carry no information (all-zero queries: the solver returns at once), totals given or None, solver per call, options dict explicit or omitted, callbacks present or absent, '
        'log on/off, structural zeros, queries and synthetic_data() on earlier models interleaved; plus warm-start histories '
        'judged against the certified optimum; distinct = content hash; non-trivial = at least 2 calls')
ANCHORS = ['FactoredInference.estimate', 'FactoredInference._setup', 'FactoredInference.fix_measurements',
           'GraphicalModel.synthetic_data', 'CliqueVector.combine']
DECIDING = ['same_as_fresh_engine', 'earlier_models_unchanged', 'caller_objects_unchanged', 'warm_start_reaches_optimum']
ASSUMPTIONS = ['(a) bitwise for MD; 1e-8*total for RDA / IG (ARPACK start vector is random)',
               '(d) as C03: relative sub-optimality <= 0.03 within 1000 -> 5000 iterations per call',
               'caller-owned objects are the measurement list, its Q / y arrays and projection tuples, and the structural-zero dict']
PLAN = {
    'quick': dict(cases=120, budget_s=150, case_timeout=600, min_cases=20),
    'thorough': dict(cases=1200, budget_s=1200, case_timeout=1200, min_cases=200),
}


def gen_case(rng, tier, idx):
    kind = 'warm' if idx % 4 == 3 else 'history'
    attrs, shape = gen.domain(rng, 2, 4, sizes=(2, 3, 4), max_cells=200)
    N = float(gen.pick(rng, [20, 1000]))
    pool, info = measure.gen_measurements(rng, attrs, shape, 4, 7, N=N, min_cells=2, max_cells=48,
                                          qkinds=['none', 'identity', 'dense', 'sparse', 'prefix', 'tall', 'wide', 'rankdef'])
    ncalls = int(rng.randint(3, 7)) if kind == 'history' else int(rng.randint(2, 5))
    calls = []
    cur = [0]
    for c in range(ncalls):
        blank = False
        if kind == 'warm':
            # grown or changed lists, as the adaptive mechanisms produce them
            if c > 0:
                cur = sorted(set(cur + [int(rng.randint(len(pool)))])) if rng.rand() < 0.7 else [int(i) for i in rng.permutation(len(pool))[:2]]
        else:
            how = gen.pick(rng, ['grow', 'shrink', 'disjoint', 'same', 'random'])
            blank = bool(c > 0 and rng.rand() < 0.2)
            if blank:
                how = 'same'    # same projections as the call before, but nothing to learn from: the solver returns at once
            if how == 'grow':
                cur = sorted(set(cur + [int(rng.randint(len(pool)))]))
            elif how == 'shrink' and len(cur) > 1:
                cur = cur[:-1]
            elif how == 'disjoint':
                rest = [i for i in range(len(pool)) if i not in cur]
                cur = rest[:max(1, len(rest) // 2)] or cur
            elif how == 'random':
                cur = [int(i) for i in rng.permutation(len(pool))[:int(rng.randint(1, len(pool) + 1))]]
        calls.append(dict(idx=list(cur), blank=bool(kind == 'history' and blank), solver=gen.pick(rng, ['MD', 'MD', 'RDA', 'IG']),
                          total=(None if rng.rand() < 0.4 else float(gen.pick(rng, [N, 2 * N, 7.0]))),
                          options=gen.pick(rng, ['omitted', 'omitted', 'empty', 'stepsize']),
                          callback=bool(rng.rand() < 0.3),
                          probe=gen.pick(rng, ['none', 'query', 'synthetic', 'bulk'])))
    zeros = None
    if rng.rand() < 0.3:
        key = pool[0]['proj']
        cells = list(dict.fromkeys(tuple(int(rng.randint(shape[attrs.index(a)])) for a in key) for _ in range(3)))
        zeros = {tuple(key): sorted(cells, reverse=True)[:max(1, int(np.prod([shape[attrs.index(a)] for a in key])) // 2)]}
    return dict(kind=kind, attrs=attrs, shape=shape, pool=pool, calls=calls, zeros=zeros, N=N,
                iters=int(gen.pick(rng, [20, 60, 200])) if kind == 'history' else 1000, log=bool(rng.rand() < 0.2),
                spellings=[gen.pick(rng, ['dense', 'csr']) for _ in pool], np_seed=int(rng.randint(2 ** 31)))


def describe(case):
    return dict(kind=case['kind'], attrs=case['attrs'], shape=case['shape'], iters=case['iters'], zeros=None if case['zeros'] is None else {str(k): v for k, v in case['zeros'].items()},
                pool=[dict(proj=list(m['proj']), kind=m['kind'], sigma=m['sigma']) for m in case['pool']],
                calls=[dict(measurements=c['idx'], solver=c['solver'], total=c['total'], options=c['options'], callback=c['callback'], then=c['probe'])
                       for c in case['calls']])


def digest_measurements(ms):
    parts = [str(len(ms))]
    for Q, y, s, proj in ms:
        if Q is None:
            parts.append('None')
        elif sparse.issparse(Q):
            Qc = Q.tocsr()
            parts.append(array_digest(Qc.data) + array_digest(Qc.indices) + array_digest(Qc.indptr) + str(Q.shape) + type(Q).__name__)
        else:
            parts.append(array_digest(np.asarray(Q)) + type(Q).__name__)
        parts.append(array_digest(np.asarray(y)) + repr(s) + repr(proj) + type(proj).__name__)
    return '|'.join(parts)


def snapshot(model, attrs):
    """Answers of a model as bytes-exact arrays."""
    with np.errstate(all='ignore'):
        out = {'total': float(model.total), 'dv': np.array(model.datavector(), dtype=float)}
        for cl in model.cliques:
            out['cl:%r' % (cl,)] = np.array(model.project(cl).values, dtype=float)
        out['pair'] = np.array(model.project(tuple(attrs[:2])).values, dtype=float)
    return out


def same_snapshot(a, b, tol):
    if set(a) != set(b):
        return False, 'different answer sets'
    for k in a:
        x, y = np.asarray(a[k]), np.asarray(b[k])
        if x.shape != y.shape:
            return False, '%s: shapes %r / %r' % (k, x.shape, y.shape)
        if tol == 0:
            if not np.array_equal(x, y, equal_nan=True):
                return False, '%s differs (max |diff| %.3e)' % (k, models.maxdiff(x, y))
        elif not np.allclose(x, y, rtol=0, atol=tol, equal_nan=True):
            return False, '%s differs by %.3e (tolerance %.1e)' % (k, models.maxdiff(x, y), tol)
    return True, ''


class CountingCallback:
    def __init__(self):
        self.n = 0

    def __call__(self, mu):
        self.n += 1


def run_case(case, ctx):
    if case['kind'] == 'warm':
        return run_warm(case, ctx)
    m = models.mbi()
    attrs, shape = case['attrs'], case['shape']
    dom = models.make_domain(attrs, shape)
    ctx.tag('history')
    if len(case['calls']) < 2:
        ctx.trivial = True
    zeros_caller = copy.deepcopy(case['zeros'])
    kw = dict(iters=case['iters'], warm_start=False, log=case['log'])
    if zeros_caller is not None:
        kw['structural_zeros'] = zeros_caller
    engine = m.FactoredInference(dom, **kw)
    returned = []  # (model, snapshot)
    pool_tuples = measure.as_tuples(case['pool'], case['spellings'])
    for k, call in enumerate(case['calls']):
        ctx.tag('solver:' + call['solver'])
        ms = [pool_tuples[i] for i in call['idx']]          # caller-owned list (arrays shared across calls, as a caller would)
        if call.get('blank'):
            # an uninformative call on the same projections: all-zero queries answered by zeros (mirror descent sees a
            # loss of exactly 0 and returns before its first iteration)
            ms = [(np.zeros((1, int(np.prod([shape[attrs.index(a)] for a in t[3]])))), np.zeros(1), 1.0, t[3]) for t in ms]
            call = dict(call, solver='MD', options='omitted', callback=False)   # no iteration, so no callback either
            ctx.tag('blank_call')
        before = digest_measurements(ms)
        zeros_before = repr(zeros_caller)
        kwargs = {}
        if call['options'] == 'empty':
            kwargs['options'] = {}
        elif call['options'] == 'stepsize' and call['solver'] == 'MD':
            kwargs['options'] = {'stepsize': 0.5 / max(1.0, call['total'] or case['N']) ** 2}
        cb = CountingCallback() if call['callback'] else None
        if cb is not None:
            kwargs['callback'] = cb
        np.random.seed((case['np_seed'] + k) % (2 ** 32))
        with quiet(), np.errstate(all='ignore'):
            model = engine.estimate(ms, total=call['total'], engine=call['solver'], **kwargs)
        snap = snapshot(model, attrs)
        # (c) caller-owned objects
        ctx.check(digest_measurements(ms) == before, 'caller_objects_unchanged', 'measurements_mutated',
                  'call %d (%s) modified the caller\'s measurement list / arrays' % (k, call['solver']))
        ctx.check(repr(zeros_caller) == zeros_before and repr(zeros_caller) == repr(case['zeros']), 'caller_objects_unchanged',
                  'zeros_mutated', 'call %d modified the caller\'s structural-zero specification' % k)
        if cb is not None:
            ctx.check(cb.n > 0, 'callback_invoked', 'callback', 'callback supplied to call %d was never invoked' % k)
        # (a) the stateless estimator: a fresh engine on deep copies of the same arguments
        kwf = dict(iters=case['iters'], warm_start=False, log=case['log'])
        if case['zeros'] is not None:
            kwf['structural_zeros'] = copy.deepcopy(case['zeros'])
        fresh = m.FactoredInference(dom, **kwf)
        fkwargs = {kk: copy.deepcopy(v) for kk, v in kwargs.items() if kk != 'callback'}
        if cb is not None:
            fkwargs['callback'] = CountingCallback()
        np.random.seed((case['np_seed'] + k) % (2 ** 32))
        with quiet(), np.errstate(all='ignore'):
            fmodel = fresh.estimate(copy.deepcopy(ms), total=call['total'], engine=call['solver'], **fkwargs)
        tol = 0 if call['solver'] == 'MD' else 1e-8 * float(fmodel.total)
        ok, why = same_snapshot(snap, snapshot(fmodel, attrs), tol)
        ctx.check(ok, 'same_as_fresh_engine', 'history_dependent',
                  'call %d (%s, measurements %r, total %r) differs from a fresh engine: %s' % (k, call['solver'], call['idx'], call['total'], why),
                  call=k)
        # interleaved use of earlier models
        returned.append((model, snap))
        with quiet(), np.errstate(all='ignore'):
            if call['probe'] == 'query':
                returned[0][0].project(tuple(attrs[-2:]))
            elif call['probe'] == 'synthetic' and returned[0][0].total >= 1:
                returned[int(np.random.randint(len(returned)))][0].synthetic_data(rows=20)
            elif call['probe'] == 'bulk':
                mm = returned[-1][0]
                saved = getattr(mm, 'marginals', None)
                mm.calculate_many_marginals([tuple(attrs[:2]), (attrs[0],)])
                # calculate_many_marginals documents that it (re)populates the cache; restore what estimate() stored
                if saved is not None:
                    mm.marginals = saved
                elif hasattr(mm, 'marginals'):
                    del mm.marginals        # a model returned before the first iteration has no stored marginals
        # (b) every model handed back earlier still answers the same
        for j, (mod, s0) in enumerate(returned):
            ok, why = same_snapshot(s0, snapshot(mod, attrs), 0)
            ctx.check(ok, 'earlier_models_unchanged', 'model_mutated',
                      'model returned by call %d changed after call %d: %s' % (j, k, why))
            if not ok:
                return
        if ctx.failures:
            return


def run_warm(case, ctx):
    m = models.mbi()
    attrs, shape = case['attrs'], case['shape']
    dom = models.make_domain(attrs, shape)
    ctx.tag('warm_start')
    pool_tuples = measure.as_tuples(case['pool'], case['spellings'])
    plain = measure.plain_tuples(case['pool'])
    solver = case['calls'][0]['solver']
    rel = None
    for iters in (1000, 5000):
        kw = dict(iters=iters, warm_start=True)
        if case['zeros'] is not None:
            kw['structural_zeros'] = copy.deepcopy(case['zeros'])
        engine = m.FactoredInference(dom, **kw)
        np.random.seed(case['np_seed'] % (2 ** 32))
        total = float(case['N'])
        min_prev = 1.0
        handed_back = []
        for ci, call in enumerate(case['calls']):
            ms = [pool_tuples[i] for i in call['idx']]
            if ci > 0:
                handed_back.append((model, snapshot(model, attrs)))
                # smallest cell mass (as a fraction of the total) of the model the next call starts from
                for cl in model.cliques:
                    v = np.asarray(model.project(cl).values, dtype=float)
                    if v.size:
                        min_prev = min(min_prev, float(v.min()) / float(model.total))
            with quiet(), np.errstate(all='ignore'):
                model = engine.estimate(ms, total=(total if ci % 2 == 0 else 2 * total), engine=solver)
            # models handed back by earlier warm-start calls are snapshots too
            for j, (mod, s0) in enumerate(handed_back):
                okb, why = same_snapshot(s0, snapshot(mod, attrs), 0)
                ctx.check(okb and mod is not model, 'earlier_models_unchanged', 'model_mutated',
                          'warm start: model returned by call %d changed after call %d: %s' % (j, ci, why or 'the same object was returned again'))
                if not okb:
                    return
        total = float(model.total)
        last = [plain[i] for i in case['calls'][-1]['idx']]
        if case['zeros'] is not None:
            # the optimum over tables that respect the declared zeros: drop those cells from the oracle
            from .c10 import forbidden_mask
            Z = forbidden_mask(attrs, shape, case['zeros']).reshape(-1)
            A, b = oracles.full_system(attrs, shape, last)
            keep = np.where(~Z)[0]
            p, fstar, gap = oracles.simplex_ls(A[:, keep], b, total)
            fu = oracles.ls_loss(A[:, keep], b, np.ones(keep.size) * total / keep.size)
            adequate = gap <= max(1e-9 * max(1.0, fstar), 1e-6 * max(fu - fstar, 0.0))
        else:
            fstar, gap, fu, _p, adequate = estim.optimum(attrs, shape, last, total)
        if not adequate:
            ctx.mon('oracle_gap_too_large')
            ctx.trivial = True
            return
        with np.errstate(all='ignore'):
            f = models.measurement_loss(model, last)
        scale = max(1.0, fstar)
        denom = fu - fstar
        rel = 0.0 if (f - fstar) <= 1e-7 * scale else ((f - fstar) / denom if denom > 1e-9 * scale else float('inf'))
        if rel <= 0.03:
            break
        ctx.mon('escalations')
    ctx.stat('warm_start_relative_suboptimality', max(rel, 0.0))
    ctx.check(rel <= 0.03, 'warm_start_reaches_optimum', 'warm_start_suboptimal',
              '%s with warm start over %d calls (%d iterations each): loss %r, certified optimum %r, uniform %r (rel %.4f)' % (
                  solver, len(case['calls']), iters, f, fstar, fu, rel), solver=solver, min_start_mass_fraction=min_prev)
    ctx.stat('min_start_mass_fraction', min_prev)
    ctx.check(f >= fstar - gap - 1e-7 * scale - 1e-6 * max(fu - fstar, 0.0), 'warm_start_reaches_optimum', 'below_optimum',
              'warm-started model has loss %r below the certified lower bound %r' % (f, fstar - gap))


def _f11(case, failure):
    """F11: a warm-started mirror descent that starts from a model with (near-)zero-mass cells stalls: the
    decrease of the loss is below floating-point resolution, the Armijo test reads 0 >= tiny and rejects,
    the step size is halved 25 times per iteration and never recovers."""
    d = failure.get('data', {})
    try:
        frac = float(d.get('min_start_mass_fraction', 1.0))
    except Exception:
        frac = 1.0
    return failure['kind'] == 'warm_start_suboptimal' and d.get('solver') == 'MD' and frac <= 1e-9


FINDINGS = {'F11': _f11}


def fixed_cases(tier):
    # witness of F11 (materialised): the first optimum puts ~5e-14 on bb=1; the second list needs mass there
    pool = [dict(Q=np.eye(2), kind='identity', y=np.array([27.9, -7.3]), sigma=20.0, proj=('bb',)),
            dict(Q=None, kind='none', y=np.array([-7.52, -2.15]), sigma=100.0, proj=('bb',)),
            dict(Q=np.eye(2), kind='identity', y=np.array([8.65, 8.85]), sigma=5.0, proj=('bb',))]
    mk = lambda idx: dict(idx=idx, solver='MD', total=20.0, options='omitted', callback=False, probe='none')
    w = dict(kind='warm', attrs=['bb', 'a'], shape=[2, 2], pool=pool, calls=[mk([0]), mk([1, 2])], zeros=None, N=20.0,
             iters=1000, log=False, spellings=['dense'] * 3, np_seed=3)
    return [('witness:F11', w)]


TECHNIQUE = 'runtime monitoring: recorded estimate histories on one engine compared call by call with a stateless reference (fresh engine on deep copies); answer snapshots and SHA-256 digests of caller-owned objects re-checked after every later call'
LEVEL_TEXT = ('Held on the histories observed: without warm start the k-th returned model is bitwise (MD) / 1e-8 (RDA, IG) equal to '
              'what a fresh engine returns, every earlier model keeps its answers bit for bit while later calls, queries and '
              'synthetic_data() run, the caller\'s lists / arrays / zero specification keep their digests, and warm-start '
              'histories over grown or changed lists end within 3% of the certified optimum. Sampling over histories of 3-6 calls.')
LEVEL_NOTE = 'The reference is the same code in a fresh object, so this decides history-dependence, not correctness of a single call (C03/C08 do that).'
