"""C01 - exact inference returns the true marginals of the product distribution.

Monitor: post-condition on GraphicalModel.belief_propagation, decided against a brute-force
joint computed with plain numpy; metamorphic monitors for elimination order, message
schedule (random linear extensions of the dependency order, recomputed by the harness from
the tree) and constant shifts; a trajectory segment keeps the post-condition installed while
the real optimisers call belief_propagation thousands of times.
"""
import numpy as np

from .. import gen, oracles, models
from ..models import quiet

ID = 'C01'
RULE = ('random domain (1-7 attrs, sizes 1-4, shuffled names) x clique-structure class x potential scale '
        '{0.1..1e5} x -inf pattern x total x elimination-order mode; distinct = content hash of the whole '
        'case; non-trivial = model has >= 2 cliques or >= 2 attributes (a one-cell model is trivial)')
ANCHORS = ['GraphicalModel.belief_propagation', 'Factor.__sub__', 'Factor.logsumexp', 'JunctionTree._triangulated',
           'JunctionTree._make_tree', 'JunctionTree.mp_order']
DECIDING = ['bp_vs_bruteforce', 'schedule_invariance', 'elim_invariance', 'shift_invariance']
ASSUMPTIONS = ['brute-force oracle limited to joints of <= 16384 cells',
               'generated log-potential magnitudes up to ~5e8 (beyond 1e15 the log-partition is not representable in doubles)',
               'float comparison rtol max(1e-7, 256*eps*max|potential|), atol 1e-9*total; trajectory calls whose parameters exceed 1e8 are counted but not judged']
PLAN = {
    'quick': dict(cases=640, budget_s=50, case_timeout=60, min_cases=150),
    'thorough': dict(cases=40000, budget_s=600, case_timeout=120, min_cases=6666),
}

RTOL, ATOLF = 1e-7, 1e-9


def gen_case(rng, tier, idx):
    kind = 'trajectory' if idx % 12 == 11 else 'static'
    if kind == 'trajectory':
        attrs, shape = gen.domain(rng, 2, 4, sizes=(2, 3), max_cells=200)
        cls, cliques = gen.cliques(rng, attrs, gen.pick(rng, ['chain', 'cycle', 'star', 'hyper', 'nested']))
        cliques = [c for c in cliques if int(np.prod([shape[attrs.index(a)] for a in c])) > 1] or [(attrs[0], attrs[1])]
        meas = []
        for c in cliques:
            n = int(np.prod([shape[attrs.index(a)] for a in c]))
            meas.append((None, rng.rand(n) * 50, float(gen.pick(rng, [0.5, 1.0, 10.0])), tuple(c)))
        return dict(kind=kind, attrs=attrs, shape=shape, cls=cls, meas=meas, total=float(gen.pick(rng, [1.0, 100.0])),
                    solver=gen.pick(rng, ['MD', 'RDA', 'IG']), iters=int(gen.pick(rng, [15, 40])),
                    sample_every=7, np_seed=int(rng.randint(2 ** 31)))
    attrs, shape = gen.domain(rng, 1, 7, sizes=(1, 2, 3, 4), max_cells=16384)
    cls, cliques = gen.cliques(rng, attrs)
    # source potentials: on the input cliques, some sub-cliques, and a few singletons
    sources = [tuple(c) for c in cliques]
    for c in list(sources):
        if len(c) > 1 and rng.rand() < 0.3:
            sources.append(tuple(c[:int(rng.randint(1, len(c)))]))
    for a in attrs:
        if rng.rand() < 0.3 or not cliques:
            sources.append((a,))
    scale = gen.pick(rng, gen.POT_SCALES + [1e8])
    ninf_mode = gen.pick(rng, [None, None, 'random', 'slice', 'allbutone'])
    pots = []
    for s in sources:
        shp = [shape[attrs.index(a)] for a in s]
        mode = ninf_mode if rng.rand() < 0.5 else None
        pots.append((s, gen.potential(rng, shp, scale=scale, ninf=mode)))
    if ninf_mode is not None:
        gen.plant_feasible(rng, attrs, shape, pots)
    mode = gen.pick(rng, ['none', 'perm', 'int'])
    elim = None if mode == 'none' else ([attrs[i] for i in rng.permutation(len(attrs))] if mode == 'perm'
                                         else int(rng.randint(1, 6)))
    return dict(kind=kind, attrs=attrs, shape=shape, cls=cls, cliques=[tuple(c) for c in cliques], pots=pots,
                scale=scale, ninf=ninf_mode, total=float(gen.pick(rng, gen.TOTALS)), elim_mode=mode, elim=elim,
                alt_elim=[attrs[i] for i in rng.permutation(len(attrs))],
                sched_seeds=[int(rng.randint(2 ** 31)) for _ in range(3)],
                shift=(int(rng.randint(max(1, len(pots)))), float(rng.normal() * 10 ** rng.randint(0, 6))),
                permute_prob=float(gen.pick(rng, [0.0, 0.0, 0.5])), np_seed=int(rng.randint(2 ** 31)))


def describe(case):
    if case['kind'] == 'trajectory':
        return {k: case[k] for k in ('kind', 'attrs', 'shape', 'cls', 'solver', 'iters', 'total')} | {
            'measured': [list(m[3]) for m in case['meas']]}
    return {k: case[k] for k in ('kind', 'attrs', 'shape', 'cls', 'cliques', 'scale', 'ninf', 'total', 'elim_mode',
                                 'elim')} | {'potentials_on': [list(p[0]) for p in case['pots']]}


def _maxabs(potentials):
    m = 0.0
    for cl in potentials:
        v = np.asarray(potentials[cl].values, dtype=float)
        fin = v[np.isfinite(v)]
        if fin.size:
            m = max(m, float(np.abs(fin).max()))
    return m


def _rtol(maxabs):
    # log-space sums of magnitude M carry an absolute rounding error of a few ulp(M), which is a
    # relative error of that size in the marginals; 1e-7 up to M ~ 1e6, proportional beyond
    return max(RTOL, 256 * np.finfo(float).eps * maxabs)


def _check_marginals(ctx, mu, model, P, attrs, total, monitor, what, RTOL=RTOL):
    """mu: CliqueVector returned by the code; P: brute-force joint."""
    atol = ATOLF * total
    ok = True
    if set(mu.keys()) != set(model.cliques):
        ctx.check(False, monitor, 'keys', '%s: marginal keys %r != model cliques %r' % (what, list(mu.keys()), model.cliques))
        return False
    worst = 0.0
    for cl in model.cliques:
        at, v = models.factor_parts(mu[cl])
        if set(at) != set(cl):
            ctx.check(False, monitor, 'attrs', '%s: clique %r answered over attributes %r' % (what, cl, at))
            return False
        ref = oracles.marginal(P, attrs, list(at))
        if not np.isfinite(v).all():
            ctx.check(False, monitor, 'nonfinite', '%s: non-finite marginal on %r' % (what, cl))
            return False
        worst = max(worst, float(np.max(np.abs(v - ref) / (atol + RTOL * np.abs(ref)))) if v.size else 0.0)
        good = models.close(v, ref, RTOL, atol)
        zero_ok = bool(np.all(v[ref == 0] <= atol)) if v.shape == ref.shape else False
        if not (good and zero_ok):
            ok = False
            ctx.check(False, monitor, 'mismatch',
                      '%s: clique %r max|diff|=%.3e (total %g); got %s want %s' % (
                          what, cl, models.maxdiff(v, ref), total, np.array2string(v.ravel()[:6], precision=6),
                          np.array2string(ref.ravel()[:6], precision=6)))
            break
    if ok:
        ctx.check(True, monitor, '', '')
    ctx.stat('worst_error_over_tolerance', worst)
    return ok


def run_case(case, ctx):
    if case['kind'] == 'trajectory':
        return run_trajectory(case, ctx)
    attrs, shape, total = case['attrs'], case['shape'], case['total']
    rng = np.random.RandomState(case['np_seed'] % (2 ** 32))
    model = models.make_model(attrs, shape, case['cliques'], total, case['elim'], np_seed=case['np_seed'])
    ctx.tag('cls:' + case['cls'])
    ctx.tag('elim:' + case['elim_mode'])
    ctx.tag('ninf:' + str(case['ninf']))
    ctx.tag('scale:%g' % case['scale'])
    if len(attrs) < 2 and len(model.cliques) < 2 and int(np.prod(shape)) < 2:
        ctx.trivial = True
    P = oracles.joint(attrs, shape, case['pots'], total)
    pot = models.place_potentials(model, attrs, shape, case['pots'], rng, case['permute_prob'])
    with np.errstate(all='ignore'):
        mu = model.belief_propagation(pot)
        logZ = model.belief_propagation(pot, logZ=True)
    rt = _rtol(_maxabs(pot))
    ok = _check_marginals(ctx, mu, model, P, attrs, total, 'bp_vs_bruteforce', 'belief_propagation', rt)
    # log-partition
    lj = oracles.log_joint(attrs, shape, case['pots'])
    m = lj.max()
    ref_logZ = float(m + np.log(np.exp(lj - m).sum()))
    ctx.check(np.isfinite(logZ) and abs(float(logZ) - ref_logZ) <= 1e-9 * max(1.0, abs(ref_logZ)) + 1e-9,
              'logZ', 'logZ', 'logZ=%r, brute force %r' % (logZ, ref_logZ))
    if not ok:
        return
    # message schedules: random linear extensions of the dependency order
    edges = list(model.junction_tree.tree.edges())
    saved = list(model.message_order)
    seen_orders = {tuple(saved)}
    for s in case['sched_seeds']:
        ext = models.random_linear_extension(edges, np.random.RandomState(s))
        seen_orders.add(tuple(ext))
        model.message_order = ext
        with np.errstate(all='ignore'):
            mu2 = model.belief_propagation(pot)
        if not _check_marginals(ctx, mu2, model, P, attrs, total, 'schedule_invariance',
                                'schedule %r' % (ext,), rt):
            break
    model.message_order = saved
    # the same container object, edited in place by the caller (what an optimiser stepping its parameters does), asked again
    if case['np_seed'] % 3 == 1 and len(case['pots']) >= 1 and case['scale'] <= 1e3:
        j = int(rng.randint(len(case['pots'])))
        src, arr = case['pots'][j]
        bump = rng.normal(size=np.shape(arr)) * max(1.0, case['scale'])
        pots2 = [(s_, (a_ + bump) if k_ == j else a_) for k_, (s_, a_) in enumerate(case['pots'])]
        host = next(cl for cl in model.cliques if set(src) <= set(cl))
        f_ = pot[host]
        with np.errstate(invalid='ignore'):
            f_.values += oracles.align(bump, src, list(f_.domain.attrs), list(f_.domain.shape))
        P2 = oracles.joint(attrs, shape, pots2, total)
        with np.errstate(all='ignore'):
            mu3 = model.belief_propagation(pot)
        ctx.tag('same_container_edited_in_place')
        _check_marginals(ctx, mu3, model, P2, attrs, total, 'bp_vs_bruteforce', 'belief_propagation after the caller edited the same potentials object in place', _rtol(_maxabs(pot)))
    ctx.stat('distinct_schedules_per_case', len(seen_orders))
    ctx.mon('schedules_tried', len(seen_orders))
    # alternative elimination order: same source potentials on another tree
    model2 = models.make_model(attrs, shape, case['cliques'], total, case['alt_elim'], np_seed=case['np_seed'] + 1)
    pot2 = models.place_potentials(model2, attrs, shape, case['pots'])
    with np.errstate(all='ignore'):
        mu3 = model2.belief_propagation(pot2)
    _check_marginals(ctx, mu3, model2, P, attrs, total, 'elim_invariance', 'elimination order %r' % (case['alt_elim'],), rt)
    if tuple(model2.cliques) != tuple(model.cliques):
        ctx.mon('alt_tree_differs')
    # constant shift of one potential
    if case['pots']:
        i, c = case['shift']
        shifted = [(s, a + c if j == i else a) for j, (s, a) in enumerate(case['pots'])]
        pot4 = models.place_potentials(model, attrs, shape, shifted)
        with np.errstate(all='ignore'):
            mu4 = model.belief_propagation(pot4)
        _check_marginals(ctx, mu4, model, P, attrs, total, 'shift_invariance', 'shift by %g' % c,
                         _rtol(_maxabs(pot4)))
    else:
        ctx.mon('shift_invariance')


def run_trajectory(case, ctx):
    """Keep the post-condition installed while a real optimiser drives belief_propagation."""
    m = models.mbi()
    attrs, shape, total = case['attrs'], case['shape'], case['total']
    dom = models.make_domain(attrs, shape)
    np.random.seed(case['np_seed'] % (2 ** 32))
    ctx.tag('trajectory:' + case['solver'])
    GM = m.GraphicalModel
    orig = GM.belief_propagation
    state = {'n': 0, 'bad': None, 'maxpot': 0.0}

    def monitored(self, potentials, logZ=False):
        out = orig(self, potentials, logZ)
        if logZ:
            return out
        state['n'] += 1
        if state['bad'] is None and state['n'] % case['sample_every'] == 0:
            pots = [models.factor_parts(potentials[cl]) for cl in potentials]
            mx = _maxabs(potentials)
            state['maxpot'] = max(state['maxpot'], mx)
            if mx > 1e8:
                # MD's step doubling (known finding F9, decided under C08) drives parameters to
                # 1e12..1e308; equality to a brute-force joint is not decidable in doubles there
                ctx.mon('trajectory_calls_beyond_1e8_not_judged')
                return out
            try:
                P = oracles.joint(attrs, shape, pots, self.total)
            except ValueError:
                return out
            if not _check_marginals(ctx, out, self, P, attrs, self.total, 'bp_on_trajectory',
                                    'call %d along %s trajectory' % (state['n'], case['solver']), _rtol(mx)):
                state['bad'] = state['n']
        return out

    GM.belief_propagation = monitored
    try:
        eng = m.FactoredInference(dom, iters=case['iters'])
        with quiet(), np.errstate(all='ignore'):
            eng.estimate(list(case['meas']), total=total, engine=case['solver'])
    finally:
        GM.belief_propagation = orig
    ctx.stat('bp_calls_per_trajectory', state['n'])
    ctx.stat('max_abs_potential_on_trajectory', state['maxpot'])
    ctx.mon('bp_calls_observed', state['n'])


def inconclusive_reasons(monitors, tags, stats, tier):
    out = []
    if monitors.get('bp_on_trajectory', 0) == 0:
        out.append('trajectory post-condition never evaluated')
    return out

TECHNIQUE = 'runtime monitoring: post-condition on belief_propagation vs brute-force joint; metamorphic schedule/elimination/shift monitors'
LEVEL_TEXT = ('Held on the executions observed: every belief_propagation result produced by the random structure x '
              'potential x total x elimination-order workload (and sampled calls along real optimiser trajectories) '
              'equals the brute-force marginal; each case is re-run under 3 random linear extensions of the message '
              'order, another elimination order and a constant shift. Sampling, not proof: structures up to 7 '
              'attributes / 16384 cells.')
LEVEL_NOTE = 'Trusts numpy broadcasting in the 40-line brute-force oracle and networkx for nothing (the schedule is recomputed from the tree edges by the harness).'
