"""C04 - the optimised objective, its gradient and smoothness bound are the stated ones.

Hook: after FactoredInference._setup the real _marginal_loss / _lipschitz are called on
candidate marginal vectors; values are compared with the loss / gradient defined on the
brute-force joint (which knows nothing about the engine's clique grouping), with central
differences along random directions, across equivalent spellings, and with the numerically
assembled Hessian's largest eigenvalue.
"""
import numpy as np

from .. import gen, oracles, models, measure
from ..models import quiet

ID = 'C04'
RULE = ('random domain (<= 256 cells) x 1-6 measurements (random / nested / repeated / cyclic / disjoint projections in '
        'arbitrary attribute order, query class from 10 kinds, heterogeneous noise) x metric {L2, L1} x candidate '
        'marginals from random potentials; plus configurations where the smallest containing clique is not the first '
        'in traversal order; distinct = content hash; non-trivial = at least one measurement')
ANCHORS = ['FactoredInference._setup', 'FactoredInference._marginal_loss', 'FactoredInference._lipschitz',
           'FactoredInference.fix_measurements']
DECIDING = ['loss_value', 'gradient_vs_joint', 'central_difference', 'spelling_equivalence', 'lipschitz_bound']
ASSUMPTIONS = ['joint-level oracle limited to domains of <= 256 cells',
               'loss rtol 1e-9 and gradient rtol 1e-8, each plus a first-order conditioning allowance 1e-10 * |Q||x|/sigma (the candidate marginals come from belief propagation, the reference from the brute-force joint); lambda_max <= L*(1+1e-7)',
               'L1 derivative test judged only when no residual is within 1e-3 of a kink',
               'Lipschitz part uses projections with >= 2 cells (scipy eigsh refuses 1x1 operators)']
PLAN = {
    'quick': dict(cases=480, budget_s=60, case_timeout=90, min_cases=100),
    'thorough': dict(cases=20000, budget_s=600, case_timeout=180, min_cases=3333),
}


def gen_case(rng, tier, idx):
    if idx % 5 in (3, 4):
        # smallest containing clique sorted late among larger ones (the F3 shape); or (idx % 5 == 3) two containing
        # cliques with exactly the same number of cells, so that only the tie-break decides where a measurement is filed
        attrs, shape = ['A', 'B', 'C', 'D'], [3, 3, 2, 2]
        projs = [('A', 'C'), ('B', 'D'), ('C', 'D'), ('C',), ('D',)]
        if idx % 5 == 3:
            sb = int(gen.pick(rng, [2, 3]))
            attrs, shape = ['A', 'B', 'C', 'D'], [int(gen.pick(rng, [3, 4])), sb, int(gen.pick(rng, [2, 3])), sb]
            projs = [('A', 'D'), ('C', 'D'), ('B', 'C'), ('C',)] + ([('D',)] if rng.rand() < 0.5 else [])
        p = [int(i) for i in rng.permutation(4)]
        attrs, shape = [attrs[i] for i in p], [shape[i] for i in p]
        projs = [gen.shuffled(rng, t) for t in projs]
        if rng.rand() < 0.5:
            projs.append(gen.pick(rng, [('A',), ('B',), ('C',)]))
        X = measure.true_table(rng, shape, 100)
        meas = []
        for t in projs:
            n = int(np.prod([shape[attrs.index(a)] for a in t]))
            kind = gen.pick(rng, ['none', 'identity', 'dense', 'scaled'])
            Q = measure.make_Q(rng, kind, n)
            x = oracles.marginal(X, attrs, list(t)).reshape(-1)
            s = float(gen.pick(rng, [0.5, 1.0, 1.0, 3.0])) if idx % 5 == 4 else float(gen.pick(rng, [0.3, 1.0, 3.0]))
            meas.append(dict(Q=Q, kind=kind, y=(x if Q is None else Q @ x) + rng.normal(0, s, size=(n if Q is None else Q.shape[0])),
                             sigma=s, proj=t))
        structure = 'grouping_trap' if idx % 5 == 4 else 'tie_trap'
        N = 100.0
    else:
        attrs, shape = gen.domain(rng, 1, 5, sizes=(1, 2, 3, 4), max_cells=256)
        meas, info = measure.gen_measurements(rng, attrs, shape, 1, 6, max_cells=64)
        structure, N = info['structure'], info['N']
    k = len(meas)
    return dict(attrs=attrs, shape=shape, meas=meas, structure=structure, N=N,
                metric=gen.pick(rng, ['L2', 'L2', 'L2', 'L1']),
                total=float(gen.pick(rng, [1.0, 10.0, N if N >= 1 else 1.0])),
                spellings=[gen.pick(rng, ['dense', 'csr', 'linop']) for _ in range(k)],
                proj_forms=[gen.pick(rng, ['tuple', 'list', 'str']) for _ in range(k)],
                pot_scale=float(gen.pick(rng, [0.1, 1.0, 3.0])), sub_seed=int(rng.randint(2 ** 31)))


def describe(case):
    return dict(attrs=case['attrs'], shape=case['shape'], metric=case['metric'], total=case['total'], structure=case['structure'],
                measurements=[dict(proj=list(m['proj']), kind=m['kind'], sigma=m['sigma'], rows=int(m['y'].size)) for m in case['meas']])


def _flatten(cv, cliques):
    return np.concatenate([np.asarray(cv[c].values, dtype=float).reshape(-1) for c in cliques])


def run_case(case, ctx):
    m = models.mbi()
    attrs, shape, total, metric = case['attrs'], case['shape'], case['total'], case['metric']
    rng = np.random.RandomState(case['sub_seed'])
    dom = models.make_domain(attrs, shape)
    meas = case['meas']
    ctx.tag('metric:' + metric)
    ctx.tag('structure:' + case['structure'])
    for mm in meas:
        ctx.tag('q:' + mm['kind'])
    if not meas:
        ctx.trivial = True

    history = case['sub_seed'] % 4 == 1 and len(meas) >= 2

    def setup(spellings, forms):
        eng = m.FactoredInference(dom, metric=metric, iters=1, warm_start=history)
        fixed = eng.fix_measurements(measure.as_tuples(meas, spellings, forms))
        if history:
            # a warm-start engine that was set up for part of the list before (the adaptive mechanisms grow their list
            # call by call): the objective is still that of the list now given
            eng._setup(fixed[:max(1, len(fixed) // 2)], total)
        eng._setup(fixed, total)
        return eng, fixed

    if history:
        ctx.tag('warm_start_engine_set_up_before')

    eng, fixed = setup(['dense'] * len(meas), ['tuple'] * len(meas))
    model = eng.model
    cliques = list(model.cliques)
    # candidate: consistent marginals of random potentials
    pots = [(cl, rng.normal(size=[shape[attrs.index(a)] for a in cl]) * case['pot_scale']) for cl in cliques]
    theta = models.place_potentials(model, attrs, shape, pots)
    with np.errstate(all='ignore'):
        mu = model.belief_propagation(theta)
    P = oracles.joint(attrs, shape, pots, total)
    loss, grad = eng._marginal_loss(mu)

    # (i) loss from the joint: every measurement exactly once
    ref = 0.0
    Gj = np.zeros(int(np.prod(shape)))
    Pf = P.reshape(-1)
    min_resid = np.inf
    # The candidate marginals handed to the engine come from belief_propagation, the reference from the brute-force
    # joint: two float evaluations of the same distribution that agree to REL (C01 observes ~1e-12).  The induced
    # difference in loss / gradient is bounded by first-order propagation through |Q| and 1/sigma:
    REL = 1e-10
    loss_cond = 0.0
    grad_cond = np.zeros(int(np.prod(shape)))
    for Q, y, s, proj in measure.plain_tuples(meas):
        idx = oracles.cell_index_map(attrs, shape, proj)
        x = np.bincount(idx, weights=Pf, minlength=int(idx.max()) + 1 if idx.size else 1)
        n = int(np.prod([shape[attrs.index(a)] for a in proj])) if len(proj) else 1
        x = np.bincount(idx, weights=Pf, minlength=n)
        r = ((x if Q is None else Q @ x) - y) / s
        if metric == 'L1':
            ref += float(np.abs(r).sum())
            gq = np.sign(r) / s
            min_resid = min(min_resid, float(np.abs(r).min()) if r.size else np.inf)
        else:
            ref += 0.5 * float(r @ r)
            gq = r / s
        gcell = gq if Q is None else Q.T @ gq
        Gj += gcell[idx]
        ax = np.abs(x) if Q is None else np.abs(Q) @ np.abs(x)          # |Q||x|: size of the perturbation of Qx
        loss_cond += float(np.sum((np.abs(r) if metric == 'L2' else 1.0) * ax / s))
        if metric == 'L2':
            gc = (ax / s ** 2) if Q is None else np.abs(Q).T @ (ax / s ** 2)
            grad_cond += gc[idx]
    scale = max(1.0, abs(ref))
    ctx.stat('loss_rel_dev', abs(loss - ref) / scale)
    ctx.stat('loss_conditioning_allowance_over_scale', REL * loss_cond / scale)
    ctx.check(abs(loss - ref) <= 1e-9 * scale + REL * loss_cond, 'loss_value', 'loss',
              'engine loss %r, loss recomputed from the joint (each measurement once) %r' % (loss, ref))

    # (ii) gradient: expanded onto the joint it must be the joint-level gradient
    ok_keys = set(grad.keys()) == set(cliques)
    ctx.check(ok_keys, 'gradient_vs_joint', 'grad_keys', 'gradient keys %r != model cliques %r' % (list(grad.keys()), cliques))
    if ok_keys:
        Ge = np.zeros(tuple(shape))
        for cl in cliques:
            at, v = models.factor_parts(grad[cl])
            Ge = Ge + oracles.align(v, at, attrs, shape)
        gs = max(1.0, float(np.abs(Gj).max()))
        dev = float(np.abs(Ge.reshape(-1) - Gj).max()) / gs
        ctx.stat('gradient_rel_dev', dev)
        judge = metric == 'L2' or min_resid > 1e-9
        if judge:
            ctx.check(dev <= 1e-8 + REL * float(grad_cond.max()) / gs, 'gradient_vs_joint', 'gradient',
                      'engine gradient expanded to the joint deviates from sum_m M^T Q^T r / sigma by %.3e (relative)' % dev)
        # central differences of the engine's own loss along random (inconsistent) directions
        for _ in range(2):
            delta = m.CliqueVector({cl: m.Factor(mu[cl].domain, rng.normal(size=mu[cl].domain.shape)) for cl in cliques})
            h = (1e-4 if metric == 'L2' else 1e-9) * total
            if metric == 'L1':
                # |residual change| <= h * max_row_sum(|Q|) * sum|delta| / sigma: judge only if no kink can be crossed
                dsum = float(np.abs(_flatten(delta, cliques)).sum())
                bound = max((1.0 if Q is None else float(np.abs(Q).sum(axis=1).max())) * dsum / s
                            for Q, y, s, proj in measure.plain_tuples(meas)) if meas else 0.0
                if not (min_resid > 2 * h * bound):
                    ctx.mon('l1_near_kink_not_judged')
                    continue
            lp, _g = eng._marginal_loss(mu + h * delta)
            lm, _g = eng._marginal_loss(mu - h * delta)
            num = (lp - lm) / (2 * h)
            ana = float(grad.dot(delta))
            # rounding of the two loss values dominates the error of the quotient
            tol = 1e-6 * max(1.0, abs(ana)) + 64 * np.finfo(float).eps * max(abs(lp), abs(lm)) / h
            # ... and so does the rounding of Q x inside each residual: x is of the size of the total even when the residual
            # (and the loss) is small, so each row contributes eps * |Q||x| / sigma to either loss value
            tol += 64 * np.finfo(float).eps * sum((1 if Q_ is None else Q_.shape[0]) * (1.0 if Q_ is None else float(np.abs(Q_).sum(axis=1).max())) * total / s_
                                                   for Q_, y_, s_, p_ in measure.plain_tuples(meas)) / h
            ctx.stat('central_difference_abs_dev', abs(num - ana))
            ctx.check(abs(num - ana) <= tol, 'central_difference', 'derivative',
                      'directional derivative: central difference %r, gradient.direction %r (tol %.2e)' % (num, ana, tol))

    # (iii) equivalent spellings
    eng2, fixed2 = setup(case['spellings'], case['proj_forms'])
    mu2 = m.CliqueVector({cl: mu[cl] for cl in eng2.model.cliques}) if set(eng2.model.cliques) == set(cliques) else None
    if mu2 is None:
        ctx.check(False, 'spelling_equivalence', 'cliques', 'model cliques differ between spellings: %r vs %r' % (eng2.model.cliques, cliques))
    else:
        loss2, grad2 = eng2._marginal_loss(mu2)
        same = abs(loss2 - loss) <= 1e-10 * scale and all(
            models.close(grad2[cl].values, grad[cl].values, 1e-9, 1e-10 * max(1.0, float(np.abs(grad[cl].values).max()))) for cl in cliques)
        ctx.check(same, 'spelling_equivalence', 'spelling', 'loss %r with spellings %r / %r, %r with dense / tuple' % (
            loss2, case['spellings'], case['proj_forms'], loss))
        ctx.tag('spelling_sets', 1)

    # (iv) smoothness bound, squared loss only
    if metric == 'L2' and meas and all(int(np.prod([shape[attrs.index(a)] for a in mm['proj']])) >= 2 for mm in meas):
        sizes = [int(np.prod(mu[cl].domain.shape)) for cl in cliques]
        n = int(sum(sizes))
        if n <= 400:
            def unflat(v):
                out, i = {}, 0
                for cl, k in zip(cliques, sizes):
                    out[cl] = m.Factor(mu[cl].domain, v[i:i + k].copy())
                    i += k
                return m.CliqueVector(out)
            g0 = _flatten(eng._marginal_loss(unflat(np.zeros(n)))[1], cliques)
            H = np.array([_flatten(eng._marginal_loss(unflat(np.eye(n)[j]))[1], cliques) - g0 for j in range(n)])
            lam = float(np.linalg.eigvalsh((H + H.T) / 2).max())
            with quiet():
                L = float(eng._lipschitz(fixed))
            ctx.stat('lambda_max_over_L', lam / L if L > 0 else (0.0 if lam <= 1e-12 else np.inf))
            ctx.check(lam <= L * (1 + 1e-7) + 1e-12, 'lipschitz_bound', 'lipschitz',
                      'largest Hessian eigenvalue %r exceeds _lipschitz() = %r (cliques %r)' % (lam, L, cliques), lam=lam, L=L)
    elif metric == 'L2':
        ctx.mon('lipschitz_skipped_single_cell')


def fixed_cases(tier):
    """Witness of the repaired finding F3 (regression case)."""
    rng = np.random.RandomState(0)
    attrs, shape = ['A', 'B', 'C', 'D'], [3, 3, 2, 2]
    projs = [('A', 'C'), ('B', 'D'), ('C', 'D'), ('C',), ('D',)]
    meas = [dict(Q=None, kind='none', y=rng.rand(int(np.prod([shape[attrs.index(a)] for a in t]))), sigma=1.0, proj=t) for t in projs]
    case = dict(attrs=attrs, shape=shape, meas=meas, structure='F3_witness', N=1.0, metric='L2', total=1.0,
                spellings=['dense'] * 5, proj_forms=['tuple'] * 5, pot_scale=1.0, sub_seed=3)
    return [('fixed:F3', case)]


TECHNIQUE = 'runtime monitoring: the real _marginal_loss / _lipschitz called after _setup and judged against a joint-level definition of loss and gradient, central differences, spelling equivalence and a numerically assembled Hessian'
LEVEL_TEXT = ('Held on the configurations observed: engine loss equals the loss recomputed from the explicit joint with every '
              'measurement counted once (1e-9), the clique gradient expanded to the joint equals sum_m M^T Q^T r/sigma (1e-8) '
              'and matches central differences, dense/CSR/operator/None queries and str/list/tuple projections agree, and '
              '_lipschitz bounds the largest eigenvalue of the assembled Hessian. Sampling over domains <= 256 cells.')
LEVEL_NOTE = 'The Hessian is assembled from the engine\'s own gradient (exact for a quadratic); numpy eigvalsh is trusted.'
