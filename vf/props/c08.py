"""C08 - the returned model is one coherent, valid distribution.

Post-condition on FactoredInference.estimate (installed by patching the class attribute, so it
also fires on estimates made inside warm-start histories): stored marginals vs re-inferred
marginals, validity of every answer (all attribute subsets up to size 3, every model clique,
the full vector) and mutual agreement of answers through two independent routes.
"""
import itertools

import numpy as np

from .. import gen, models, measure, estim, oracles

ID = 'C08'
RULE = ('random domain (2-5 attrs, <= 600 cells) x measurement class {empty, consistent with uniform (MD early exit), all-zero '
        'queries (L = 0), ordinary, boundary optimum (N = 1), single attribute, noise 1e-3..1e-6 (line search exhausted)} x solver {MD, RDA, IG} x iterations '
        '{1,2,3,10,100,1000} x structural zeros on/off x total; plus every estimate() made inside runs of the four shipped mechanisms; every estimate() return is judged, half of them a second time after synthetic_data() was drawn from them; distinct = content hash; '
        'non-trivial = always (the empty-measurement class is part of the quantifier)')
ANCHORS = ['FactoredInference.estimate', 'FactoredInference.mirror_descent', 'FactoredInference.dual_averaging',
           'FactoredInference.interior_gradient', 'GraphicalModel.project', 'GraphicalModel.datavector', 'GraphicalModel.mle',
           'GraphicalModel.belief_propagation']
DECIDING = ['stored_vs_reinferred', 'answer_valid', 'answers_agree']
ASSUMPTIONS = ['(a) 1e-7*total, (b) sums rtol min(1e-4, max(1e-9, 256*eps*max|parameter|)) (answers of a model whose parameters reach 1e13 - one overshooting first step on measurements with noise 1e-6 - are only that accurate) and negatives >= -1e-12*total, (c) 1e-7*total',
               'RDA / IG are driven with projections of >= 2 cells and not with all-zero query matrices (scipy eigsh refuses a 1x1 operator and a zero operator); MD gets both']
PLAN = {
    'quick': dict(cases=240, budget_s=120, case_timeout=300, min_cases=40),
    'thorough': dict(cases=4000, budget_s=900, case_timeout=600, min_cases=666),
}
CLASSES = ['empty', 'uniform_consistent', 'zero_queries', 'ordinary', 'ordinary', 'boundary', 'single_attr', 'precise']
# every fourth case runs on an engine that already made a (warm-start or not) call; see gen_case
ITERS = [1, 2, 3, 10, 100, 1000]


def gen_case(rng, tier, idx):
    if idx % 20 == 19:
        # the post-condition stays installed while a shipped mechanism makes its own estimate() calls
        from .. import mechrun
        mech = ['mst', 'mwem', 'aim', 'adagrid'][(idx // 20) % 4]
        attrs, shape, rows = mechrun.gen_dataset(rng)
        return dict(cls='inside_mechanism', mech=mech, cfg=mechrun.gen_config(rng, mech, attrs, shape), attrs=attrs, shape=shape, rows=rows,
                    solver='MD', iters=int(gen.pick(rng, [5, 40])), private_seed=int(rng.randint(2 ** 31)), post_seed=int(rng.randint(2 ** 31)))
    solver = ['MD', 'RDA', 'IG'][idx % 3]
    attrs, shape = gen.domain(rng, 2, 5, sizes=(1, 2, 3, 4) if solver == 'MD' else (2, 3, 4), max_cells=600)
    cls = gen.pick(rng, CLASSES)
    if cls == 'zero_queries' and solver != 'MD':
        cls = 'empty'  # ARPACK refuses the zero operator ("starting vector is zero"): degenerate input kept out of RDA / IG
    total = float(gen.pick(rng, [1.0, 1.0, 10.0, 1000.0]))
    n_of = lambda t: int(np.prod([shape[attrs.index(a)] for a in t]))
    mc = 1 if solver == 'MD' else 2
    if cls == 'empty':
        meas = []
    elif cls == 'uniform_consistent':
        projs = measure.projections(rng, attrs, shape, int(rng.randint(1, 4)), 'random', mc, 64)
        meas = [dict(Q=None, kind='none', y=np.ones(n_of(t)) * total / n_of(t), sigma=1.0, proj=t) for t in projs]
    elif cls == 'zero_queries':
        projs = measure.projections(rng, attrs, shape, int(rng.randint(1, 3)), 'random', mc, 64)
        meas = [dict(Q=np.zeros((2, n_of(t))), kind='zeros', y=rng.normal(size=2), sigma=1.0, proj=t) for t in projs]
    elif cls == 'boundary':
        meas, _ = measure.gen_measurements(rng, attrs, shape, 1, 3, N=1, qkinds=['identity', 'none', 'prefix'], sigmas=[0.1, 1.0],
                                           min_cells=mc, max_cells=64, noise=False)
        total = 1.0
    elif cls == 'precise':
        # answers far more precise than the total is large: the first steps of every line search overshoot
        meas, _ = measure.gen_measurements(rng, attrs, shape, 1, 3, N=max(1.0, total), sigmas=[1e-3, 1e-5, 1e-6], min_cells=mc, max_cells=64,
                                           qkinds=['identity', 'none', 'dense', 'prefix'])
    elif cls == 'single_attr':
        a = [x for x in attrs if shape[attrs.index(x)] >= mc][0]
        n = n_of((a,))
        meas = [dict(Q=None, kind='none', y=rng.rand(n) * 3 * total, sigma=1.0, proj=(a,))]
    else:
        meas, _ = measure.gen_measurements(rng, attrs, shape, 1, 4, N=max(1.0, total), min_cells=mc, max_cells=64)
    zeros = None
    if rng.rand() < 0.35:
        t = (measure.projections(rng, attrs, shape, 1, 'random', 2, 64) or [tuple(attrs[:2])])[0]
        cells = [tuple(int(rng.randint(shape[attrs.index(a)])) for a in t) for _ in range(int(rng.randint(1, 3)))]
        cells = list(dict.fromkeys(cells))
        if len(cells) < n_of(t):
            zeros = {tuple(t): cells}
    iters = int(gen.pick(rng, ITERS)) if cls != 'precise' else int(gen.pick(rng, [1, 1, 2, 3, 10, 100]))
    prior = None
    if idx % 4 == 1:
        pm, _ = measure.gen_measurements(rng, attrs, shape, 1, 3, N=max(1.0, total), min_cells=2, max_cells=64)
        prior = dict(meas=pm, warm_start=bool(rng.rand() < 0.7), solver=gen.pick(rng, ['MD', 'RDA', 'IG']), iters=int(gen.pick(rng, [10, 100])))
    return dict(attrs=attrs, shape=shape, cls=cls, meas=meas, solver=solver, iters=iters, total=total, prior=prior,
                zeros=zeros, give_total=bool(rng.rand() < 0.8 or cls in ('empty', 'zero_queries')),
                np_seed=int(rng.randint(2 ** 31)))


def describe(case):
    if case['cls'] == 'inside_mechanism':
        from .. import mechrun
        return dict(cls=case['cls'], mechanism=case['mech'], attrs=case['attrs'], shape=case['shape'], records=int(case['rows'].shape[0]), iteration_cap=case['iters'])
    return dict(attrs=case['attrs'], shape=case['shape'], cls=case['cls'], solver=case['solver'], iters=case['iters'],
                total=case['total'] if case['give_total'] else None, zeros=case['zeros'], engine_history=(None if case.get('prior') is None else dict(warm_start=case['prior']['warm_start'], solver=case['prior']['solver'])),
                measurements=[dict(proj=list(m['proj']), kind=m['kind'], sigma=m['sigma']) for m in case['meas']])


def judge_model(ctx, model, attrs, shape, what=''):
    """The post-condition itself.  Returns nothing; records failures with the data the known-finding
    predicates need (largest finite parameter)."""
    total = float(model.total)
    mx = estim.max_abs_potential(model)
    info = dict(max_abs_potential=mx)
    sum_rtol = min(1e-4, max(1e-9, 256 * np.finfo(float).eps * (mx if np.isfinite(mx) else 1e308)))
    ctx.stat('max_abs_potential', mx if np.isfinite(mx) else 1e308)
    with np.errstate(all='ignore'):
        # (a) stored marginals are the marginals of the stored parameters
        if hasattr(model, 'marginals') and model.marginals is not None:
            re = model.belief_propagation(model.potentials)
            worst = 0.0
            okk = set(re.keys()) == set(model.marginals.keys())
            if okk:
                for cl in re:
                    a1, v1 = models.factor_parts(model.marginals[cl])
                    a2, v2 = models.factor_parts(re[cl])
                    v2 = oracles.marginal(v2, list(a2), list(a1)) if a1 != a2 else v2
                    d = models.maxdiff(v1, v2)
                    worst = max(worst, d if np.isfinite(d) else np.inf)
            ctx.stat('stored_vs_reinferred_over_total', worst / total if np.isfinite(worst) else 1e308)
            ctx.check(okk and worst <= max(1e-7, sum_rtol) * total, 'stored_vs_reinferred', 'incoherent',
                      '%sstored clique marginals differ from belief_propagation(potentials) by %.3e (total %g)' % (what, worst, total), **info)
        else:
            ctx.mon('no_stored_marginals')
        # (b) every answer valid; (c) agreement through the full vector
        full = np.asarray(model.datavector(flatten=False), dtype=float)
        answers = [('datavector', list(attrs), full)]
        subsets = [c for k in range(1, min(3, len(attrs)) + 1) for c in itertools.combinations(attrs, k)]
        subsets += [tuple(cl) for cl in model.cliques]
        for sset in dict.fromkeys(subsets):
            f = model.project(tuple(sset))
            at, v = models.factor_parts(f)
            answers.append(('project%r' % (tuple(sset),), list(at), v))
        full_ok = np.isfinite(full).all() and full.shape == tuple(shape)
        for name, at, v in answers:
            bad = None
            if not np.isfinite(v).all():
                bad = 'non-finite'
            elif (v < -1e-12 * total).any():
                bad = 'negative entry %r' % float(v.min())
            elif abs(float(v.sum()) - total) > sum_rtol * total:
                bad = 'sums to %r, model total %r' % (float(v.sum()), total)
            ctx.check(bad is None, 'answer_valid', 'invalid_answer', lambda: '%s%s: %s' % (what, name, bad), **info)
            if bad is None and full_ok and name != 'datavector':
                ref = oracles.marginal(full, list(attrs), at)
                d = models.maxdiff(v, ref)
                ctx.check(d <= max(1e-7, sum_rtol) * total, 'answers_agree', 'disagree',
                          '%s%s differs from the marginal of the full vector by %.3e (total %g)' % (what, name, d, total), **info)
            if bad is not None:
                break


def run_inside_mechanism(case, ctx):
    from .. import mechrun
    H = mechrun.harness(case['iters'])
    seen = {'n': 0}

    def on_model(eng, model):
        seen['n'] += 1
        if not ctx.failures:
            at, sh = list(model.domain.attrs), list(model.domain.shape)   # MST estimates over a compressed domain
            judge_model(ctx, model, at, sh, what='%s, estimate #%d: ' % (case['mech'], seen['n']))

    H.on_model = on_model
    try:
        r = H.run(case['cfg'], case['attrs'], case['shape'], case['rows'], 'record', case['private_seed'], case['post_seed'])
    finally:
        H.on_model = None
    ctx.tag('inside:' + case['mech'])
    ctx.mon('models_returned_inside_mechanisms', seen['n'])
    if r['error'] is not None and seen['n'] == 0:
        ctx.trivial = True


def run_case(case, ctx):
    if case['cls'] == 'inside_mechanism':
        return run_inside_mechanism(case, ctx)
    attrs, shape, solver = case['attrs'], case['shape'], case['solver']
    dom = models.make_domain(attrs, shape)
    tuples = measure.as_tuples(case['meas'])
    ctx.tag('class:' + case['cls'])
    ctx.tag('solver:' + solver)
    ctx.tag('iters:%d' % case['iters'])
    ctx.tag('zeros:%s' % (case['zeros'] is not None))
    np.random.seed(case['np_seed'] % (2 ** 32))
    engine = None
    if case.get('prior') is not None:
        # the engine has a history: an earlier fit whose parameters a warm start carries over
        pr = case['prior']
        engine, _m0 = estim.estimate(dom, measure.as_tuples(pr['meas']), case['total'], pr['solver'], pr['iters'], zeros=case['zeros'],
                                     warm_start=pr['warm_start'])
        ctx.tag('engine_history:warm_start=%s' % pr['warm_start'])
    vkw, vtags, vseen = estim.variant(case['np_seed'], attrs)
    if engine is not None:
        vkw.pop('elim', None)
    for t in vtags:
        if t != 'opt:elim_order' or engine is None:
            ctx.tag(t)
    if solver == 'MD' and case['np_seed'] % 3 == 1 and case['give_total'] and case['total']:
        # the caller fixes the step size (no line search): a step a few times the natural one 1/total^2 overshoots,
        # so the last iterate is not the best one; whatever is returned must still be one distribution
        c_ = (0.5, 2.0, 20.0, 200.0)[(case['np_seed'] // 3) % 4]
        vkw['options'] = {'stepsize': c_ / float(case['total']) ** 2}
        ctx.tag('opt:stepsize_x%g' % c_)
    eng, model = estim.estimate(dom, tuples, case['total'] if case['give_total'] else None, solver, case['iters'], zeros=case['zeros'],
                                engine=engine, **vkw)
    judge_model(ctx, model, attrs, shape)
    if not ctx.failures and case['np_seed'] % 2 == 0 and float(model.total) >= 1.0:
        # the returned model stays that distribution while it is being used: drawing records is a read-only use
        with models.quiet(), np.errstate(all='ignore'):
            model.synthetic_data(rows=(None if case['np_seed'] % 4 == 0 else 7))
        ctx.tag('judged_again_after_synthetic_data')
        judge_model(ctx, model, attrs, shape, what='after synthetic_data(): ')


def _f9(case, failure):
    mp = failure.get('data', {}).get('max_abs_potential')
    try:
        mp = float(mp)
    except Exception:
        mp = 0.0
    return case.get('solver') == 'MD' and failure['kind'] in ('invalid_answer', 'disagree', 'incoherent') and mp >= 1e12


FINDINGS = {}  # F9 was repaired in /repo (9ea056c); its witness stays as a regression case


def fixed_cases(tier):
    rng = np.random.RandomState(7)
    out = []
    # F4 (repaired): interior gradient with nothing to fit
    out.append(('fixed:F4', dict(attrs=['a', 'bb', 'c'], shape=[2, 3, 2], cls='empty', meas=[], solver='IG', iters=5, total=10.0,
                                 zeros=None, give_total=True, np_seed=1)))
    # F9 (open): boundary optimum, MD, parameters drift to 1e87 and beyond
    y = np.array([1.0, 0.0])
    out.append(('fixed:F9', dict(attrs=['a', 'bb', 'c', 'd4'], shape=[3, 3, 2, 2], cls='boundary',
                                   meas=[dict(Q=None, kind='none', y=np.array([3.0, 1.0]), sigma=1.0, proj=('c',))], solver='MD', iters=1500,
                                   total=1.0, zeros=None, give_total=True, np_seed=2)))
    import os
    import pickle
    wp = os.path.join(os.path.dirname(os.path.dirname(os.path.dirname(os.path.abspath(__file__)))), 'witnesses', 'C08_F16.pkl')
    if os.path.exists(wp):
        with open(wp, 'rb') as f:
            out.append(('fixed:F16', pickle.load(f)))
    return out


TECHNIQUE = 'runtime monitoring: post-condition on the model returned by the real FactoredInference.estimate (stored vs re-inferred marginals, validity and mutual agreement of all answers)'
LEVEL_TEXT = ('Held on the estimates observed: for every solver, iteration count (including 1) and early-exit class, the returned '
              'model\'s stored marginals equal belief propagation of its stored parameters, every answer up to size-3 subsets, '
              'every clique and the full vector is finite, non-negative and sums to the total, and all answers agree with the '
              'full vector. The MD parameter drift found this way (F9) was repaired in /repo; its witness is a regression case.')
LEVEL_NOTE = 'The model is compared with itself through independent routes (stored vs re-inferred, variable elimination vs full vector); no external oracle is needed.'
