"""C03 - estimation attains the global optimum over all distributions.

Reference model: a self-certifying constrained least-squares solver over the full joint
(vf.oracles.simplex_ls, Frank-Wolfe duality gap).  The loss of the model returned by the real
FactoredInference.estimate is recomputed by the harness from model.project answers.
"Given enough iterations" is restated as bounded progress: 1000 -> 5000 -> 20000 iterations.
"""
import numpy as np

from .. import gen, models, measure, estim

ID = 'C03'
RULE = ('random domain (<= 256 cells) x 1-5 measurements (overlapping / nested / cyclic / repeated / disjoint projections in '
        'arbitrary attribute order; 10 query classes incl. None, sparse, LinearOperator, rank-deficient, total row; noise '
        'scales 0.1-100 mixed inside one problem; N in {1,20,1e3,1e5}; total given or estimated) x solver {MD, RDA, IG}; every fourth case on an engine object that answered another measurement set first; '
        'distinct = content hash; non-trivial = uniform is not already optimal (gap to optimum > 1e-9 relative)')
ANCHORS = ['FactoredInference.estimate', 'FactoredInference.mirror_descent', 'FactoredInference.dual_averaging',
           'FactoredInference.interior_gradient', 'FactoredInference._marginal_loss', 'GraphicalModel.belief_propagation',
           'GraphicalModel.mle']
DECIDING = ['not_above_optimum', 'not_below_optimum', 'not_worse_than_uniform']
ASSUMPTIONS = ['oracle limited to domains of <= 256 cells; its answer is used only with its duality-gap certificate (gap <= 1e-9 of the loss or <= 1e-6 of the uniform-to-optimum distance, else the case is not judged)',
               '"given enough iterations" = relative sub-optimality (f - f*)/(f_uniform - f*) <= 0.03 within 1000 -> 5000 -> 20000 iterations',
               'RDA / IG are driven with projections of >= 2 cells (scipy eigsh refuses a 1x1 operator)',
               'iteration budgets capped at 20000; a solver slower than that on some input would be reported as a violation']
PLAN = {
    'quick': dict(cases=150, budget_s=150, case_timeout=600, min_cases=25, shards=16),
    'thorough': dict(cases=1800, budget_s=1200, case_timeout=1200, min_cases=300),
}
TAU = 0.03
BUDGETS = [1000, 5000, 20000]
SOLVERS = ['MD', 'RDA', 'IG']


def gen_case(rng, tier, idx):
    solver = SOLVERS[idx % 3]
    attrs, shape = gen.domain(rng, 1, 4, sizes=(1, 2, 3, 4), max_cells=256)
    if solver != 'MD':
        while max(shape) < 2:
            attrs, shape = gen.domain(rng, 1, 4, sizes=(2, 3, 4), max_cells=256)
    meas, info = measure.gen_measurements(rng, attrs, shape, 1, 5, min_cells=(1 if solver == 'MD' else 2), max_cells=64)
    known = rng.rand() < 0.6
    total = float(max(1.0, info['N'])) if known else None
    prior = None
    if idx % 4 == 3:
        # the engine object answered another question first (no warm start): nothing of it may enter this objective
        pm, pinfo = measure.gen_measurements(rng, attrs, shape, 1, 3, min_cells=(1 if solver == 'MD' else 2), max_cells=64)
        prior = dict(meas=pm, total=float(max(1.0, pinfo['N'])), iters=int(gen.pick(rng, [1, 20, 200])))
    return dict(prior=prior, attrs=attrs, shape=shape, meas=meas, N=info['N'], structure=info['structure'], solver=solver, total=total,
                spellings=[gen.pick(rng, ['dense', 'dense', 'csr', 'linop']) for _ in meas],
                proj_forms=[gen.pick(rng, ['tuple', 'tuple', 'list', 'str']) for _ in meas],
                np_seed=int(rng.randint(2 ** 31)))


def describe(case):
    return dict(attrs=case['attrs'], shape=case['shape'], solver=case['solver'], total=case['total'], N=case['N'],
                structure=case['structure'],
                measurements=[dict(proj=list(m['proj']), kind=m['kind'], sigma=m['sigma'], rows=int(m['y'].size), spelling=s)
                              for m, s in zip(case['meas'], case['spellings'])])


def run_case(case, ctx):
    attrs, shape, solver = case['attrs'], case['shape'], case['solver']
    dom = models.make_domain(attrs, shape)
    tuples = measure.as_tuples(case['meas'], case['spellings'], case.get('proj_forms'))
    plain = measure.plain_tuples(case['meas'])
    ctx.tag('solver:' + solver)
    ctx.tag('structure:' + case['structure'])
    ctx.tag('total:' + ('given' if case['total'] is not None else 'estimated'))
    for mm in case['meas']:
        ctx.tag('q:' + mm['kind'])
    fstar = gap = fu = None
    rel = None
    history = []
    for k, iters in enumerate(BUDGETS):
        np.random.seed(case['np_seed'] % (2 ** 32))
        engine = None
        if case.get('prior') is not None:
            pr = case['prior']
            engine, _m0 = estim.estimate(dom, measure.as_tuples(pr['meas']), pr['total'], solver, pr['iters'])
            ctx.tag('engine_history')
        vkw, vtags, vseen = estim.variant(case['np_seed'], attrs)
        if engine is not None:
            vkw.pop('elim', None)
        for t in vtags:
            if t != 'opt:elim_order' or engine is None:
                ctx.tag(t)
        eng, model = estim.estimate(dom, tuples, case['total'], solver, iters, engine=engine, **vkw)
        if 'callback' in vkw and iters >= 1:
            ctx.mon('callback_calls', len(vseen))
        total = float(model.total)
        if fstar is None:
            fstar, gap, fu, _p, adequate = estim.optimum(attrs, shape, plain, total)
            if not adequate:
                ctx.mon('oracle_gap_too_large')
                ctx.trivial = True
                ctx.info['oracle'] = 'gap %.3e' % gap
                return
        with np.errstate(all='ignore'):
            f = models.measurement_loss(model, plain)
        scale = max(1.0, fstar)
        if not np.isfinite(f):
            ctx.check(False, 'not_above_optimum', 'nonfinite_loss', 'loss of the returned model is %r (solver %s, %d iterations)' % (f, solver, iters),
                      solver=solver, max_abs_potential=estim.max_abs_potential(model))
            return
        denom = fu - fstar
        if denom <= 1e-9 * scale:
            ctx.trivial = True
            rel = 0.0 if f - fstar <= 1e-7 * scale else float('inf')
        else:
            rel = (f - fstar) / denom
        history.append(f)
        if rel <= TAU or (f - fstar) <= 1e-7 * scale:
            break
        ctx.mon('escalations')
    ctx.stat('iterations_needed', iters)
    ctx.stat('relative_suboptimality', max(rel, 0.0))
    ctx.stat('oracle_gap_over_uniform_distance', gap / max(fu - fstar, 1e-300))
    mx = estim.max_abs_potential(model)
    min_frac = 1.0
    with np.errstate(all='ignore'):
        for cl in model.cliques:
            v = np.asarray(model.project(cl).values, dtype=float)
            if v.size:
                min_frac = min(min_frac, float(v.min()) / float(model.total))
    stalled = len(history) >= 2 and abs(history[-1] - history[-2]) <= 1e-12 * max(1.0, abs(history[-1]))
    ctx.check(rel <= TAU or (f - fstar) <= 1e-7 * scale, 'not_above_optimum', 'suboptimal',
              '%s after %d iterations: loss %r, certified optimum %r, uniform %r: relative sub-optimality %.4f' % (
                  solver, iters, f, fstar, fu, rel), solver=solver, rel=float(rel), max_abs_potential=mx,
              min_mass_fraction=min_frac, stalled=bool(stalled))
    # slack: the model's own normalisation is exact only to ~1e-9, which moves its loss by that much
    ctx.check(f >= fstar - gap - 1e-7 * scale - 1e-6 * max(fu - fstar, 0.0), 'not_below_optimum', 'below_optimum',
              '%s: loss %r of the returned model is below the certified lower bound %r' % (solver, f, fstar - gap),
              solver=solver, max_abs_potential=mx)
    # slack 1e-7: the model's normalisation is exact only to ~1e-9, and when the uniform table is (almost) optimal the
    # averaged iterates of RDA / IG end within a few 1e-9 of it (thorough tier: 4e-9 and 3e-9 on 1800 problems)
    ctx.check(f <= fu * (1 + 1e-7) + 1e-12, 'not_worse_than_uniform', 'worse_than_uniform',
              '%s: loss %r of the returned model exceeds the uniform table\'s %r' % (solver, f, fu), solver=solver,
              max_abs_potential=mx)


def _f9(case, failure):
    """Known finding F9 (mechanism): mirror descent's step size doubles for ever once the loss stops
    changing, the parameters drift to >= 1e12 and log(total) - logZ loses all precision."""
    d = failure.get('data', {})
    mp = d.get('max_abs_potential')
    mp = float(mp) if mp is not None else 0.0
    return (case.get('solver') == 'MD' and failure['kind'] in ('suboptimal', 'worse_than_uniform', 'nonfinite_loss', 'below_optimum')
            and mp >= 1e12)


def _f11(case, failure):
    """F11 (same mechanism as under C13): once mirror descent sits next to the boundary (a cell with ~1e-90 of the mass,
    reached by one large early step) the loss decrease of any further step is below floating-point resolution, the
    Armijo test reads 0 >= tiny positive and rejects, the step is halved 25 times per iteration and never recovers."""
    d = failure.get('data', {})
    try:
        frac = float(d.get('min_mass_fraction', 1.0))
    except Exception:
        frac = 1.0
    return (failure['kind'] == 'suboptimal' and case.get('solver') == 'MD' and bool(d.get('stalled')) and frac <= 1e-9)


FINDINGS = {'F11': _f11}  # F9 was repaired in /repo (9ea056c); its witness stays as a regression case


def fixed_cases(tier):
    # witness of F9: one cell, one identity measurement; nothing to optimise, yet MD drifts
    meas = [dict(Q=np.eye(1), kind='identity', y=np.array([111.54835808]), sigma=100.0, proj=('a',))]
    w = dict(attrs=['a'], shape=[1], meas=meas, N=20.0, structure='single_cell', solver='MD', total=20.0,
             spellings=['dense'], np_seed=1)
    import os
    import pickle
    out = [('fixed:F9', w)]
    wp = os.path.join(os.path.dirname(os.path.dirname(os.path.dirname(os.path.abspath(__file__)))), 'witnesses', 'C03_F11.pkl')
    if os.path.exists(wp):
        with open(wp, 'rb') as f:
            out.append(('witness:F11', pickle.load(f)))
    return out


TECHNIQUE = 'runtime monitoring: loss of the model returned by the real estimator (recomputed from model.project) compared with a certified constrained least-squares optimum over the full joint (reference model with duality-gap certificate)'
LEVEL_TEXT = ('Held on the problems observed: for each of MD / RDA / IG the returned model\'s squared loss is within 3% of the '
              'uniform-to-optimum gap of the certified global optimum within an escalating iteration budget, never below the '
              'certified lower bound and never above the uniform table\'s loss. Sampling over domains <= 256 cells; a defect '
              'moving the optimum by less than 3% of that gap is not visible here (C04 checks the objective itself).')
LEVEL_NOTE = 'The oracle\'s own correctness is not assumed: only its Frank-Wolfe certified interval [f - gap, f] is used.'
