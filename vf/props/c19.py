"""C19 - public-data reweighting yields valid weights and never a worse fit.

Post-condition on PublicInference.estimate (also across repeated calls on one object, which
warm-start from the previous weights): one finite non-negative weight per public record,
summing to the given / estimated total, over the unchanged public records; loss - recomputed
from weighted contingency tables built with the Counter reference - not above the uniformly
weighted public data's loss.
"""
from collections import Counter

import numpy as np

from .. import gen, models, measure, oracles
from ..core import array_digest

ID = 'C19'
RULE = ('public data set of 1-500 records (incl. one distinct record, support missing private cells, duplicates) over a 1-3 attribute '
        'domain x 1-4 measurements (identity / dense / prefix / sparse queries, noise 1e-3..100, huge noise ratios) x total given '
        '(incl. totals far from the measured counts) or estimated x 1-3 estimate calls on one PublicInference object; distinct = '
        'content hash; non-trivial = at least 2 public records')
ANCHORS = ['PublicInference.__init__', 'PublicInference.estimate', 'PublicInference._marginal_loss', 'entropic_mirror_descent',
           'estimate_total', 'CliqueVector.from_data']
DECIDING = ['weights_valid', 'weights_sum_to_total', 'records_unchanged', 'fit_not_worse_than_uniform']
ASSUMPTIONS = ['total rtol 1e-9 (the estimated total is taken from the harness\'s pinv-based reference, C09)',
               'loss <= uniform*(1+1e-9) + 1e-13 * (first-order rounding allowance sum |r/sigma| |Q||x|/sigma); both recomputed by the harness from Counter-built weighted tables',
               'projections are tuples and queries explicit matrices (PublicInference has no fix_measurements step)']
PLAN = {
    'quick': dict(cases=320, budget_s=120, case_timeout=300, min_cases=50),
    'thorough': dict(cases=6000, budget_s=900, case_timeout=600, min_cases=1000),
}


def gen_case(rng, tier, idx):
    attrs, shape = gen.domain(rng, 1, 3, sizes=(1, 2, 3, 4, 5), max_cells=100, names=['age', 'sex', 'zip'])
    npub = int(gen.pick(rng, [1, 2, 3, 10, 40, 150, 500]))
    pc = gen.pick(rng, ['random', 'random', 'one_distinct', 'narrow_support', 'duplicates'])
    if pc == 'one_distinct':
        row = [int(rng.randint(s)) for s in shape]
        rows = np.array([row] * npub)
    elif pc == 'narrow_support':
        rows = np.array([[int(rng.randint(max(1, s // 2))) for s in shape] for _ in range(npub)])
    elif pc == 'duplicates':
        base = np.array([[int(rng.randint(s)) for s in shape] for _ in range(max(1, npub // 5))])
        rows = base[rng.randint(len(base), size=npub)]
    else:
        rows = np.array([[int(rng.randint(s)) for s in shape] for _ in range(npub)])
    rows = rows.reshape(npub, len(attrs)).astype(int)
    conflict = len(attrs) >= 2 and rng.rand() < 0.25
    if conflict:
        # perfectly correlated public attributes facing measurements that disagree with each other: no weighting can
        # fit both, so every step trades one misfit against the other
        pc = 'correlated'
        rows[:, 1] = rows[:, 0] % shape[1]
    N = float(gen.pick(rng, [17, 1000, 123456]))
    sig = [1e-3, 0.1, 1.0, 10.0, 100.0]
    calls = []
    for c in range(int(gen.pick(rng, [1, 1, 2, 3]))):
        meas, _ = measure.gen_measurements(rng, attrs, shape, 1, 4, N=N, sigmas=sig, max_cells=64,
                                           qkinds=['identity', 'identity', 'dense', 'prefix', 'sparse', 'tall', 'total_row', 'hier'])
        if conflict:
            meas = []
            for a_, sg in zip(attrs[:2], [float(gen.pick(rng, [0.1, 1.0])), float(gen.pick(rng, [1.0, 10.0]))]):
                n_ = shape[attrs.index(a_)]
                p_ = rng.dirichlet(np.ones(n_) * 0.5)
                meas.append(dict(Q=np.eye(n_), kind='identity', y=N * p_ + rng.normal(0, sg, n_), sigma=sg, proj=(a_,)))
        total = None if rng.rand() < 0.4 else float(gen.pick(rng, [N, N, 1.0, 1e6, 3.5]))
        if conflict and rng.rand() < 0.5 and shape[0] >= 2:
            # one marginal measured twice, accurately and r times less accurately, the answers pulling away from the
            # uniform weighting in opposite directions with misfits in ratio 1 : r^u.  The right trade-off follows the
            # inverse variances; weighting by 1/sigma or 1/sigma^4 instead moves the wrong way for u = 1.5 resp. 3.
            T0 = float(total if total is not None else N)
            pub = np.bincount(rows[:, 0], minlength=shape[0]) / float(npub)
            e_ = rng.normal(size=shape[0])
            d_ = 0.05 * T0 * (e_ - e_.mean())
            s1, r_ = float(gen.pick(rng, [0.5, 1.0, 2.0])), float(gen.pick(rng, [2.0, 3.0]))
            k_ = r_ ** float(gen.pick(rng, [1.5, 3.0]))
            agree = rng.rand() < 0.5    # the accurate answer is exactly what the uniformly weighted public data gives
            meas = [dict(Q=np.eye(shape[0]), kind='identity', y=T0 * pub + (0.0 if agree else 1.0) * d_, sigma=s1, proj=(attrs[0],)),
                    dict(Q=np.eye(shape[0]), kind='identity', y=T0 * pub - k_ * d_, sigma=s1 * r_, proj=(attrs[0],))]
        calls.append(dict(meas=meas, total=total))
    return dict(attrs=attrs, shape=shape, rows=rows, public_class=pc, N=N, calls=calls,
                spellings=gen.pick(rng, ['dense', 'csr']), metric=gen.pick(rng, ['L2', 'L1'] if conflict else ['L2', 'L2', 'L2', 'L1']))


def describe(case):
    return dict(attrs=case['attrs'], shape=case['shape'], public_records=int(case['rows'].shape[0]), public_class=case['public_class'], N=case['N'],
                calls=[dict(total=c['total'], measurements=[dict(proj=list(m['proj']), kind=m['kind'], sigma=m['sigma']) for m in c['meas']])
                       for c in case['calls']])


def weighted_loss(attrs, shape, rows, w, plain, with_cond=False, metric='L2'):
    """0.5 * sum ||(Q m - y)/sigma||^2 with m the weighted contingency table of the public records."""
    f = 0.0
    cond = 0.0   # first-order sensitivity of the loss to a relative perturbation of the table: sum |r/sigma| |Q||x| / sigma
    for Q, y, s, proj in plain:
        cnt = Counter()
        ax = [attrs.index(a) for a in proj]
        for i, r in enumerate(rows):
            cnt[tuple(int(r[a]) for a in ax)] += float(w[i])
        T = np.zeros([shape[a] for a in ax])
        for k, v in cnt.items():
            T[k] = v
        x = T.reshape(-1)
        r_ = ((x if Q is None else Q @ x) - y) / s
        f += 0.5 * float(r_ @ r_) if metric == 'L2' else float(np.abs(r_).sum())
        cond += float((np.abs(r_) if metric == 'L2' else np.ones_like(r_)) @ ((np.abs(x) if Q is None else np.abs(Q) @ np.abs(x)) / s))
    return (f, cond) if with_cond else f


def run_case(case, ctx):
    import pandas as pd
    from . import c09
    m = models.mbi()
    attrs, shape, rows = case['attrs'], case['shape'], case['rows']
    dom = models.make_domain(attrs, shape)
    n = rows.shape[0]
    df = pd.DataFrame(rows, columns=attrs)
    pub = m.Dataset(df, dom)
    ctx.tag('public:' + case['public_class'])
    if n < 2:
        ctx.trivial = True
    rows_digest = array_digest(np.ascontiguousarray(pub.df.values))
    metric = case.get('metric', 'L2')
    ctx.tag('metric:' + metric)
    eng = m.PublicInference(pub, metric=metric)
    for k, call in enumerate(case['calls']):
        meas = call['meas']
        # spelling of the projections: in a third of the cases a one-attribute projection is the bare attribute
        # name, which Dataset.project accepts (a list is not hashable and PublicInference keys a dict by it)
        form = ('tuple', 'str', 'tuple')[(int(n) + len(attrs) + int(sum(shape))) % 3]
        ctx.tag('proj_form:' + form)
        tuples = [(Q, y, s, (p if isinstance(p, (str, list)) else tuple(p))) for Q, y, s, p in
                  measure.as_tuples(meas, [case['spellings']] * len(meas), [form] * len(meas))]
        plain = measure.plain_tuples(meas)
        with np.errstate(all='ignore'):
            res = eng.estimate(tuples, total=call['total'])
        w = np.asarray(res.weights, dtype=float) if res.weights is not None else None
        what = 'call %d (total %r): ' % (k, call['total'])
        ok = w is not None and w.shape == (n,) and np.isfinite(w).all() and (w >= 0).all()
        ctx.check(ok, 'weights_valid', 'invalid_weights', lambda: what + 'weights %s' % (
            'missing' if w is None else 'shape %r, min %r, finite %s' % (w.shape, float(np.nanmin(w)) if w.size else None, bool(np.isfinite(w).all()))))
        same = (array_digest(np.ascontiguousarray(res.df.values)) == rows_digest and list(res.df.columns) == list(attrs)
                and tuple(res.domain.attrs) == tuple(attrs) and array_digest(np.ascontiguousarray(pub.df.values)) == rows_digest)
        ctx.check(same, 'records_unchanged', 'records_changed', what + 'the returned / public records differ from the public records handed in')
        if not ok:
            return
        if call['total'] is not None:
            want = float(call['total'])
        else:
            want = c09.reference_total([dict(Q=(mm['Q'] if mm['Q'] is not None else np.eye(mm['y'].size)), y=mm['y'], sigma=mm['sigma']) for mm in meas])
        if want is not None:
            rel = abs(float(w.sum()) - want) / want
            ctx.stat('weight_sum_rel_dev', rel)
            ctx.check(rel <= 1e-9 if call['total'] is not None else rel <= 1e-6, 'weights_sum_to_total', 'wrong_total',
                      what + 'weights sum to %r, expected %r' % (float(w.sum()), want))
        if k > 0:
            # A reused object starts from its previous weights, so its guarantee is relative to that start, which
            # the property does not speak about.  The fit clause is judged on a fresh object for every measurement
            # set; the reused object is judged for validity, total and unchanged records above.
            ctx.tag('repeat_call_on_one_object')
            with np.errstate(all='ignore'):
                fresh = m.PublicInference(m.Dataset(pd.DataFrame(rows, columns=attrs), dom), metric=metric).estimate(tuples, total=call['total'])
            w = np.asarray(fresh.weights, dtype=float)
            if not (w.shape == (n,) and np.isfinite(w).all() and (w >= 0).all()):
                ctx.check(False, 'weights_valid', 'invalid_weights', what + 'fresh object returned invalid weights')
                return
        T = float(w.sum())
        f, cond = weighted_loss(attrs, shape, rows, w, plain, with_cond=True, metric=metric)
        fu = weighted_loss(attrs, shape, rows, np.ones(n) * T / n, plain, metric=metric)
        ctx.stat('loss_over_uniform', f / fu if fu > 0 else 1.0)
        # the two tables are sums of n float weights: equal weightings differ by ~n ulp, amplified by |Q||x|/sigma
        # (thorough tier: 1e-8 relative with counts 1e5 and noise 1e-3 on identical public records)
        ctx.check(f <= fu * (1 + 1e-9) + 1e-12 + 1e-13 * cond, 'fit_not_worse_than_uniform', 'worse_than_uniform',
                  what + '%s loss %r of the reweighted public data exceeds %r of the uniformly weighted data (%d records, class %s)' % (
                      metric, f, fu, n, case['public_class']))
        if ctx.failures:
            return


def fixed_cases(tier):
    # F13 (repaired): one-cell domain, 23 identical public records, supplied total far from the measured counts
    Q = np.array([[1.0]])
    meas = [dict(Q=Q * 2.0, kind='scaled', y=np.array([34.0]), sigma=1.0, proj=('age',))]
    case = dict(attrs=['age'], shape=[1], rows=np.zeros((23, 1), dtype=int), public_class='one_distinct', N=17.0,
                calls=[dict(meas=meas, total=1e6)], spellings='dense')
    return [('fixed:F13', case)]


TECHNIQUE = 'runtime monitoring: post-condition on the weights returned by the real PublicInference.estimate (validity, total, unchanged records, loss vs uniform weighting recomputed with a Counter reference), incl. repeated calls on one object'
LEVEL_TEXT = ('Held on the calls observed: one finite non-negative weight per public record, summing to the supplied total (1e-9) or to '
              'the reference estimate (1e-6), the public records untouched, and a loss never above the uniformly weighted public '
              'data\'s - including single-record / single-distinct-record public sets, supports that miss private cells, noise down '
              'to 1e-3, totals far from the measured counts and warm-started repeat calls.')
LEVEL_NOTE = 'Weighted tables are rebuilt by the harness with collections.Counter; nothing from the repository enters the loss oracle.'
