"""C09 - known totals are honoured; unknown totals are the best linear estimate.

Reference model: dense SVD (numpy.linalg.pinv): v* = pinv(Q^T) 1, membership of the ones
vector in the row space by the residual, inverse-variance weighting, floor at 1.  Observed at
the public boundary: model.total of FactoredInference / LocalInference, the weight sum of
PublicInference and the return value of the four copies of the estimator.
"""
import numpy as np

from .. import env, gen, models, measure, oracles
from ..models import quiet

ID = 'C09'
RULE = ('1-3 measurements over a 1-2 attribute domain (projection sizes 1-64) with query class from {identity, scaled, '
        'prefix, all-ranges, random square / tall full-rank (cond <= 1e3), integer, sparse, LinearOperator, rank-deficient '
        'with / without the ones vector in the row space, single total row}; mixed noise scales; noisy or noise-free '
        'answers of an N-record table; total supplied or omitted; 4 estimator entry points; distinct = content hash; '
        'non-trivial = at least one measurement')
ANCHORS = ['FactoredInference._setup', 'LocalInference._setup', 'PublicInference.estimate', 'estimate_total']
DECIDING = ['supplied_total_exact', 'estimated_total', 'noise_free_equals_N']
ASSUMPTIONS = ['membership of the ones vector is generated with a margin (exact by construction, or residual >= 0.1)',
               'full-rank random matrices have condition number <= 1e3 (beyond that the repository\'s allclose(rtol=1e-5) acceptance test is numerically meaningless)',
               'mixture_inference.estimate_total is imported through a placeholder jax package (jax is not installed); MixtureInference itself is not run',
               'relative tolerance 1e-6']
PLAN = {
    'quick': dict(cases=640, budget_s=100, case_timeout=120, min_cases=100),
    'thorough': dict(cases=20000, budget_s=900, case_timeout=240, min_cases=3333),
}
KINDS = ['identity', 'scaled', 'prefix', 'ranges', 'square', 'tall', 'integer', 'sparse', 'rankdef_with_ones',
         'rankdef_without_ones', 'total_row', 'wide_without_ones', 'hier', 'illcond']


def setup(tier):
    # mbi/mixture_inference.py imports jax at module level; a placeholder package lets the module
    # (and its pure-numpy estimate_total) import.  The placeholder is removed again right away:
    # scipy's array-API helpers probe sys.modules['jax'] and must not find a fake.
    import sys
    env.setup(jax_stub=True)
    import mbi  # noqa: F401
    from mbi import mixture_inference  # noqa: F401
    for k in [k for k in sys.modules if k == 'jax' or k.startswith('jax.')]:
        del sys.modules[k]
    sys.path[:] = [p for p in sys.path if not p.endswith('jaxstub')]


def conditioned(rng, m, n, cond=1e3):
    k = min(m, n)
    U, _ = np.linalg.qr(rng.normal(size=(m, k)))
    V, _ = np.linalg.qr(rng.normal(size=(n, k)))
    s = np.exp(rng.uniform(0, np.log(cond), size=k))
    return (U * s) @ V.T


def make_Q(rng, kind, n):
    """(Q, ones_in_rowspace)."""
    if kind == 'identity':
        return np.eye(n), True
    if kind == 'scaled':
        return np.eye(n) * float(gen.pick(rng, [0.25, 3.0, 100.0])), True
    if kind == 'prefix':
        return np.tril(np.ones((n, n))), True
    if kind == 'ranges':
        rows = [[1.0 if i <= k <= j else 0.0 for k in range(n)] for i in range(n) for j in range(i, n)]
        return np.array(rows), True
    if kind == 'square':
        return conditioned(rng, n, n), True
    if kind == 'tall':
        return conditioned(rng, n + int(rng.randint(1, 4)), n), True
    if kind == 'integer':
        while True:
            Q = rng.randint(-3, 4, size=(n, n)).astype(float) + 4 * np.eye(n)
            if np.linalg.cond(Q) <= 1e3:
                return Q, True
    if kind == 'sparse':
        while True:
            Q = (rng.rand(n, n) < 0.3) * rng.normal(size=(n, n)) + np.eye(n) * (1 + rng.rand(n))
            if np.linalg.cond(Q) <= 1e3:
                return Q, True
    if kind == 'total_row':
        return np.ones((1, n)) * float(gen.pick(rng, [1.0, 2.0])), True
    if kind == 'hier':
        return measure.hierarchical(n), True
    if kind == 'illcond':
        # full rank but badly conditioned (1e4-1e5): the iterative solve reaches the ones vector to ~cond*eps only, well
        # inside the estimator's own acceptance tolerance
        if n == 1:
            return np.ones((1, 1)), True
        U, _ = np.linalg.qr(rng.normal(size=(n, n)))
        V, _ = np.linalg.qr(rng.normal(size=(n, n)))
        sv = np.ones(n)
        sv[-1] = 1.0 / float(gen.pick(rng, [1e4, 1e5]))
        return (U * sv) @ V.T, True
    if kind == 'rankdef_with_ones':
        r = max(1, n // 2)
        B = rng.normal(size=(r, n))
        Q = np.vstack([np.ones((1, n)), rng.normal(size=(max(1, n - 1), r)) @ B])
        return Q, True
    if kind == 'rankdef_without_ones':
        if n == 1:
            return np.zeros((1, 1)), False
        r = max(1, n // 2)
        C = np.eye(n) - np.ones((n, n)) / n  # rows orthogonal to the ones vector
        return (rng.normal(size=(n, r)) @ rng.normal(size=(r, n))) @ C, False
    if kind == 'wide_without_ones':
        if n == 1:
            return np.zeros((1, 1)), False
        C = np.eye(n) - np.ones((n, n)) / n
        return rng.normal(size=(max(1, n // 2), n)) @ C, False
    raise ValueError(kind)


def gen_case(rng, tier, idx):
    d = int(gen.pick(rng, [1, 1, 2]))
    if d == 1:
        attrs, shape = ['age_group'], [int(gen.pick(rng, [1, 2, 3, 5, 8, 9, 15, 16, 19, 24, 33, 64]))]
    else:
        attrs, shape = ['age_group', 'sex'], [int(gen.pick(rng, [2, 3, 4, 8])), int(gen.pick(rng, [1, 2, 5, 8]))]
    N = int(gen.pick(rng, [1, 2, 17, 140, 1000, 123456]))
    X = measure.true_table(rng, shape, N)
    noise_free = bool(rng.rand() < 0.4)
    k = int(gen.pick(rng, [1, 1, 2, 3]))
    meas = []
    for _ in range(k):
        t = tuple(attrs) if (d == 1 or rng.rand() < 0.4) else ((attrs[int(rng.randint(2))],) if rng.rand() < 0.8 else tuple(attrs[::-1]))
        n = int(np.prod([shape[attrs.index(a)] for a in t]))
        kind = gen.pick(rng, KINDS)
        if kind == 'ranges' and n > 24:
            kind = 'prefix'
        Q, member = make_Q(rng, kind, n)
        x = oracles.marginal(X, attrs, list(t)).reshape(-1)
        sigma = float(gen.pick(rng, [0.1, 1.0, 1.0, 10.0, 50.0]))
        y = Q @ x + (0 if noise_free else rng.normal(0, sigma, size=Q.shape[0]))
        meas.append(dict(Q=Q, kind=kind, y=y, sigma=sigma, proj=t, member=member))
    count_query = bool(rng.rand() < 0.15)
    if count_query:
        # the record count asked directly: a measurement on the empty projection
        c_ = float(gen.pick(rng, [1.0, 1.0, 2.0]))
        sg_ = float(gen.pick(rng, [0.1, 1.0, 10.0]))
        meas.append(dict(Q=np.array([[c_]]), kind='count_on_empty_projection', y=np.array([c_ * X.sum()]) + (0 if noise_free else rng.normal(0, sg_, size=1)),
                         sigma=sg_, proj=(), member=True))
    supplied = None if rng.rand() < 0.75 else gen.pick(rng, [1, 7, 3.5, float(N), 1e6])
    prior_call = None
    if rng.rand() < 0.3:
        n0 = shape[0]
        prior_call = dict(meas=[dict(Q=np.eye(n0), kind='identity', y=rng.rand(n0) * 50, sigma=1.0, proj=(attrs[0],))],
                          total=gen.pick(rng, [None, 5000.0, 3.0]), warm_start=bool(rng.rand() < 0.6))
    return dict(attrs=attrs, shape=shape, N=N, noise_free=noise_free, meas=meas, supplied=supplied, prior_call=prior_call,
                spellings=[gen.pick(rng, ['dense', 'dense', 'csr', 'linop']) for _ in meas],
                targets=[t for t in ['factored', 'local', 'public', 'mixture', 'public_fn'] if rng.rand() < (0.35 if t in ('public', 'local') else 0.9)
                         and not (count_query and t in ('local', 'public'))] or ['factored'],   # only FactoredInference documents the empty projection
                oracle_kind=gen.pick(rng, ['convex', 'approx', 'pairwise']), sub_seed=int(rng.randint(2 ** 31)))


def describe(case):
    return dict(attrs=case['attrs'], shape=case['shape'], N=case['N'], noise_free=case['noise_free'], supplied_total=case['supplied'],
                targets=case['targets'], engine_history=(None if case.get('prior_call') is None else dict(total=case['prior_call']['total'], warm_start=case['prior_call']['warm_start'])),
                measurements=[dict(proj=list(m['proj']), kind=m['kind'], shape=list(m['Q'].shape), sigma=m['sigma'], spelling=s)
                              for m, s in zip(case['meas'], case['spellings'])])


def reference_total(meas):
    est, var = [], []
    for mm in meas:
        Q = mm['Q']
        o = np.ones(Q.shape[1])
        v = np.linalg.pinv(Q.T) @ o
        resid = float(np.abs(Q.T @ v - o).max())
        if resid <= 1e-6:
            est.append(float(v @ mm['y']))
            var.append(mm['sigma'] ** 2 * float(v @ v))
        elif resid < 0.1:
            return None  # borderline membership: not judged (never generated on purpose)
    if not est:
        return 1.0
    est, var = np.array(est), np.array(var)
    return max(1.0, float(np.sum(est / var) / np.sum(1 / var)))


def run_case(case, ctx):
    import pandas as pd
    m = models.mbi()
    attrs, shape = case['attrs'], case['shape']
    dom = models.make_domain(attrs, shape)
    tuples = measure.as_tuples(case['meas'], case['spellings'])
    supplied = case['supplied']
    for mm in case['meas']:
        ctx.tag('q:' + mm['kind'])
    ref = reference_total(case['meas'])
    if ref is None:
        ctx.trivial = True
        return
    all_member_fullrank = all(mm['member'] and mm['kind'] not in ('rankdef_with_ones', 'total_row') for mm in case['meas'])

    def judge(name, got):
        ctx.tag('target:' + name)
        if supplied is not None:
            ok = (got == supplied)
            ctx.check(ok, 'supplied_total_exact', 'supplied_total', '%s: total %r although %r was supplied' % (name, got, supplied))
            return
        rel = abs(got - ref) / ref
        ctx.stat('total_rel_dev', rel)
        ctx.check(rel <= 1e-6, 'estimated_total', 'estimated_total',
                  '%s: total %r, best linear estimate %r (N=%d, kinds %r)' % (name, got, ref, case['N'], [mm['kind'] for mm in case['meas']]),
                  got=float(got), ref=ref, target=name)
        if case['noise_free'] and any(mm['member'] for mm in case['meas']):
            ctx.check(abs(got - max(1, case['N'])) <= 1e-6 * max(1, case['N']), 'noise_free_equals_N', 'noise_free_total',
                      '%s: noise-free answers of a %d-record table gave total %r' % (name, case['N'], got), target=name)

    with quiet(), np.errstate(all='ignore'):
        if 'factored' in case['targets']:
            if case.get('prior_call') is not None:
                # the engine has a history: an earlier estimate() with another total (supplied or estimated)
                pc = case['prior_call']
                eng = m.FactoredInference(dom, iters=1, warm_start=pc['warm_start'])
                eng.estimate(list(measure.as_tuples(pc['meas'])), total=pc['total'], engine='MD')
                ctx.tag('engine_reused:warm_start=%s' % pc['warm_start'])
            else:
                eng = m.FactoredInference(dom, iters=1)
            if case['sub_seed'] % 4 == 1:
                model = eng.infer(list(tuples), supplied, 'MD')     # the deprecated spelling of estimate()
                ctx.tag('entry_point:infer')
            else:
                model = eng.estimate(list(tuples), total=supplied, engine='MD')
            judge('factored', model.total)
        if 'local' in case['targets']:
            if case['sub_seed'] % 3 == 0:
                # a ready-made oracle object: LocalInference assigns it the total (model.total = total)
                cl_ = [tuple(p) if not isinstance(p, str) else (p,) for _q, _y, _s, p in tuples]
                orc = m.RegionGraph(dom, cl_, 55.0, convex=(case['oracle_kind'] != 'approx'), iters=1) if case['oracle_kind'] != 'pairwise' \
                    else m.FactorGraph(dom, cl_, 55.0, convex=False, iters=1)
                orc.potentials = m.CliqueVector.zeros(dom, orc.cliques)
                eng = m.LocalInference(dom, iters=1, marginal_oracle=orc)
                ctx.tag('local:ready_made_oracle_object')
            else:
                eng = m.LocalInference(dom, iters=1, marginal_oracle=case['oracle_kind'])
            model = eng.estimate([(q_, y_, s_, tuple(p_) if not isinstance(p_, str) else (p_,)) for q_, y_, s_, p_ in tuples], total=supplied)
            judge('local', model.total)
        if 'public' in case['targets']:
            rng = np.random.RandomState(case['sub_seed'])
            npub = int(rng.randint(1, 40))
            df = pd.DataFrame({a: rng.randint(s, size=npub) for a, s in zip(attrs, shape)})
            pub = m.Dataset(df, dom)
            # the total PublicInference works with is observed where it is handed to the optimiser
            from mbi import public_inference as pi_mod
            seen = []
            orig = pi_mod.entropic_mirror_descent

            def spy(loss_and_grad, x0, total, *a, **k):
                seen.append(total)
                return orig(loss_and_grad, x0, total, *a, **k)

            pi_mod.entropic_mirror_descent = spy
            try:
                res = m.PublicInference(pub).estimate([(Q, y, s, tuple(p) if not isinstance(p, str) else (p,)) for Q, y, s, p in tuples], total=supplied)
            finally:
                pi_mod.entropic_mirror_descent = orig
            if len(seen) != 1:
                ctx.check(False, 'estimated_total', 'hook', 'PublicInference.estimate called the optimiser %d times' % len(seen))
            else:
                judge('public', seen[0])
                # the returned weights realise that total (loosely here; C19 judges the weights themselves)
                wsum = float(np.sum(res.weights))
                ctx.check(abs(wsum - float(seen[0])) <= 1e-3 * float(seen[0]), 'public_weights_sum', 'public_weights',
                          'PublicInference weights sum to %r, total in use %r' % (wsum, seen[0]))
        if supplied is None:
            if 'mixture' in case['targets']:
                from mbi import mixture_inference
                judge('mixture_inference.estimate_total', float(mixture_inference.estimate_total(list(tuples))))
            if 'public_fn' in case['targets']:
                from mbi import public_inference
                judge('public_inference.estimate_total', float(public_inference.estimate_total(list(tuples))))


def fixed_cases(tier):
    """Witnesses of the repaired finding F5: prefix queries of size 8 and 9, noise-free."""
    out = []
    for n in (8, 9):
        x = np.random.RandomState(1).randint(0, 50, n).astype(float)
        Q = np.tril(np.ones((n, n)))
        case = dict(attrs=['age_group'], shape=[n], N=int(x.sum()), noise_free=True, supplied=None,
                    meas=[dict(Q=Q, kind='prefix', y=Q @ x, sigma=1.0, proj=('age_group',), member=True)],
                    spellings=['dense'], targets=['factored', 'local', 'public', 'mixture', 'public_fn'],
                    oracle_kind='convex', sub_seed=5)
        out.append(('fixed:F5_prefix%d' % n, case))
    return out


TECHNIQUE = 'runtime monitoring: totals read at the public boundary of the four estimators and compared with a dense-SVD reference (inverse-variance weighted linear estimate)'
LEVEL_TEXT = ('Held on the measurement sets observed: supplied totals are returned exactly; omitted totals equal the pinv-based '
              'inverse-variance estimate over exactly the measurements whose row space contains the ones vector (floored at 1) '
              'within 1e-6, and noise-free answers give N, for FactoredInference, LocalInference, PublicInference and the '
              'two module-level estimate_total functions. Sampling over 12 query classes, sizes 1-64.')
LEVEL_NOTE = 'Trusts numpy.linalg.pinv; membership cases are generated with a margin so no verdict depends on a borderline allclose.'
