"""C06 - private data reaches mechanism output only through the DP primitives.

Same paired executions as C05.  The run on the neighbour is fed the recorded noisy values and
selections; the two runs must then perform the same sequence of events (kind, size, noise
scale) and return identical synthetic data, conforming to the input's original domain.
"""
import numpy as np

from .. import gen, mechrun, privacy

ID = 'C06'
RULE = ('as C05: mechanism x dataset x parameters x injected outcome sequence x (3 neighbours + 2 datasets many records away, reachable by a chain of neighbours: '
        'columns permuted independently, resampled, all records equal, half, double); unit = one (D, D\') replayed pair; '
        'distinct = content hash of the case; non-trivial = the mechanism produced output')
ANCHORS = ['MST', 'measure', 'compress_domain', 'transform_data', 'reverse_data', 'select', 'AIM.run', 'mwem_pgm', 'adagrid',
           'GraphicalModel.synthetic_data']
DECIDING = ['same_event_sequence', 'same_output', 'output_conforms_to_domain', 'harness_deterministic']
ASSUMPTIONS = ['post-processing randomness (synthetic-data rounding, reverse_data, ...) comes from the global numpy generator, seeded identically in both runs; private draws come from a separate stream',
               'run 1 repeated with the same seeds must reproduce its own log exactly, otherwise the case is inconclusive (harness_deterministic)',
               'FactoredInference iteration counts capped (post-processing only); environment adapters as in C05']
PLAN = {
    'quick': dict(cases=48, budget_s=200, case_timeout=900, min_cases=10),
    'thorough': dict(cases=600, budget_s=1200, case_timeout=1800, min_cases=100),
}


def distant(rng, shape, rows, bounded):
    """Datasets many records away from D.  The property quantifies over neighbouring pairs fed the same outcomes, so it
    holds along every chain of neighbours and hence between D and any dataset the adjacency notion can reach: any
    dataset at all for add/remove adjacency, any dataset of the same size for replace-one.  A side channel that moves
    a branch by less than one record's worth (a threshold on an un-noised statistic) shows between far-apart datasets
    on almost every run, while between neighbours only when the statistic happens to sit on the threshold."""
    N, d = rows.shape
    out = []
    same_size = ['permute_columns', 'resample', 'point']
    chosen = [same_size[i] for i in rng.permutation(3)[:2]] if bounded else [gen.pick(rng, same_size), gen.pick(rng, ['half', 'double'])]
    for kind in chosen:
        if kind == 'permute_columns':      # same one-way marginals, different joint
            r2 = np.array([rows[rng.permutation(N), j] for j in range(d)]).T.reshape(N, d)
        elif kind == 'resample':
            r2 = np.array([rng.randint(s, size=N) for s in shape]).T.reshape(N, d)
        elif kind == 'point':
            r2 = np.tile(np.array([int(rng.randint(s)) for s in shape]), (N, 1))
        elif kind == 'half':
            r2 = rows[rng.permutation(N)[:N // 2]]
        else:
            r2 = np.vstack([rows, np.array([rng.randint(s, size=N) for s in shape]).T.reshape(N, d)])
        out.append(('distant_' + kind, r2.astype(int)))
    return out


def gen_case(rng, tier, idx):
    case = mechrun.pair_case(rng, tier, idx + 7)
    case['neighbours'] = list(case['neighbours']) + distant(rng, case['shape'], case['rows'], case['cfg']['bounded'])
    return case


def describe(case):
    return mechrun.describe_pair(case)


def run_case(case, ctx):
    H = mechrun.harness(case['cap'])
    cfg = case['cfg']
    attrs, shape = case['attrs'], case['shape']
    ctx.tag('mech:' + case['mech'])
    ctx.tag('inject:' + case['inject'])
    r1 = H.run(cfg, attrs, shape, case['rows'], 'record', case['private_seed'], case['post_seed'], inject=case['inject'])
    if r1['error'] is not None:
        ctx.trivial = True
        ctx.tag('no_output:%s:%s' % (case['mech'], r1['error_type']))
        ctx.mon('runs_without_output')
        return
    r1b = H.run(cfg, attrs, shape, case['rows'], 'record', case['private_seed'], case['post_seed'], inject=case['inject'])
    det = mechrun.same_log(r1['events'], r1b['events']) and r1b['output'] is not None and r1['output'] is not None \
        and np.array_equal(r1['output'], r1b['output'])
    ctx.mon('harness_deterministic')
    if not det:
        ctx.mon('harness_not_deterministic')
        ctx.trivial = True
        return
    ctx.mon('release_events_recorded', sum(1 for e in r1['events'] if e['type'] == 'release'))
    ctx.mon('selection_events_recorded', sum(1 for e in r1['events'] if e['type'] == 'select'))
    out = r1['output']
    ok_dom = bool(r1['domain_ok']) and out is not None and out.ndim == 2 and out.shape[1] == len(attrs) and \
        (out.size == 0 or ((out >= 0).all() and (out < np.array(shape)).all()))
    ctx.check(ok_dom, 'output_conforms_to_domain', 'domain', '%s: returned data has columns %r / domain_ok=%r / values outside the original domain %r' % (
        case['mech'], r1.get('columns'), r1['domain_ok'], shape), mech=case['mech'])
    sk1 = privacy.skeleton(r1['events'])
    for kind, rows2 in case['neighbours']:
        r2 = H.run(cfg, attrs, shape, rows2, 'replay', case['private_seed'], case['post_seed'], replay=r1['events'])
        ctx.tag('neighbour:' + kind)
        if r2['mismatch']:
            ctx.check(False, 'same_event_sequence', 'control_flow_depends_on_data',
                      '%s, %s neighbour: %s' % (case['mech'], kind, r2['mismatch']), mech=case['mech'])
            continue
        if r2['error']:
            ctx.check(False, 'same_event_sequence', 'neighbour_run_failed',
                      '%s, %s neighbour: run on D\' raised although fed the outcomes recorded on D: %s' % (case['mech'], kind, r2['error'][-400:]), mech=case['mech'])
            continue
        # a release whose cells share one noise draw fixes every contrast between those cells: the values recorded on D
        # can be observed on D' only if they differ from D's statistic by a constant too
        for j_, e_ in enumerate(r2['events']):
            if e_['type'] == 'release' and e_.get('noise_n', e_['n']) < e_['n']:
                res = (np.asarray(e_['y'], dtype=float) - np.asarray(e_['x'], dtype=float)).reshape(-1)
                tol = 1e-9 * max(1.0, float(np.abs(e_['y']).max()))
                ctx.check(e_['noise_n'] == 1 and bool(np.all(np.abs(res - res[0]) <= tol)), 'same_event_sequence', 'release_not_observable_on_neighbour',
                          '%s, %s neighbour: release %d adds %d noise draw(s) to %d cells, so the contrasts between cells are released exactly; the values recorded on D '
                          'cannot occur on D\'' % (case['mech'], kind, j_, e_['noise_n'], e_['n']), mech=case['mech'])
        sk2 = privacy.skeleton(r2['events'])
        same = sk1 == sk2
        if not same:
            j = next((i for i, (a, b) in enumerate(zip(sk1, sk2)) if a != b), min(len(sk1), len(sk2)))
            detail = 'first difference at event %d: %r vs %r (lengths %d / %d)' % (j, sk1[j] if j < len(sk1) else None, sk2[j] if j < len(sk2) else None, len(sk1), len(sk2))
        ctx.check(same, 'same_event_sequence', 'event_sequence_differs',
                  lambda: '%s, %s neighbour: the two runs do not perform the same releases / scales / selections: %s' % (case['mech'], kind, detail), mech=case['mech'])
        same_out = r2['output'] is not None and r2['output'].shape == out.shape and np.array_equal(r2['output'], out)
        ctx.check(same_out, 'same_output', 'output_depends_on_data',
                  lambda: '%s, %s neighbour: identical released values and selections, but the returned synthetic data differ (%s)' % (
                      case['mech'], kind, 'shape %r vs %r' % (None if r2['output'] is None else r2['output'].shape, out.shape)), mech=case['mech'])


TECHNIQUE = 'runtime monitoring (relational): record/replay paired executions on neighbouring datasets; the event skeletons (kind, size, noise scale) and the returned synthetic data of the two runs are compared'
LEVEL_TEXT = ('Held on the pairs observed: fed identical released values and selections, the run on the neighbouring dataset performs '
              'the same sequence of releases with the same noise scales and the same selections over the same number of candidates, '
              'and returns bit-identical synthetic data that conforms to the original domain, for all four mechanisms over the '
              'driven parameter settings, outcome injections and neighbours, and likewise on datasets many records away (which a chain of '
              'neighbours reaches, so the property covers them; they expose thresholds on un-noised statistics that neighbours straddle only rarely).')
LEVEL_NOTE = 'A data dependence that changes neither the event skeleton nor the output on the driven pairs is invisible to this monitor.'
