"""C02 - every query path answers from one and the same joint distribution.

History + executable model: per model a random history of query / cache / persistence
operations is executed on the real GraphicalModel; every answer is compared with the marginal
of the brute-force joint laid out in the requested order.
"""
import itertools
import os
import tempfile

import numpy as np

from .. import gen, oracles, models
from . import c01

ID = 'C02'
RULE = ('C01 model generator (|potential| <= 50 when the history contains krondot) x random history of 6-12 '
        'operations from {project, calculate_many_marginals, krondot, datavector, save+load, populate cache, drop '
        'cache, synthetic_data}; distinct = content hash of model+history; non-trivial = domain has >= 2 cells')
ANCHORS = ['GraphicalModel.project', 'GraphicalModel.calculate_many_marginals', 'GraphicalModel.krondot',
           'GraphicalModel.datavector', 'GraphicalModel.save', 'GraphicalModel.load', 'variable_elimination_logspace',
           'variable_elimination', 'greedy_order']
DECIDING = ['project', 'bulk', 'krondot', 'datavector', 'after_reload', 'cache_independence']
ASSUMPTIONS = ['brute-force oracle limited to joints of <= 16384 cells',
               'krondot exponentiates in linear space by design, so histories containing it use |potential| <= 50',
               'float comparison rtol max(1e-7, 256*eps*max|potential|), atol 1e-9*total']
PLAN = {
    'quick': dict(cases=480, budget_s=60, case_timeout=90, min_cases=100),
    'thorough': dict(cases=15000, budget_s=600, case_timeout=180, min_cases=2500),
}
OPS = ['project', 'project', 'project', 'bulk', 'krondot', 'datavector', 'reload', 'cache', 'uncache', 'synthetic']


def _rand_tuple(rng, attrs, kmax=None):
    d = len(attrs)
    k = int(rng.randint(0, (kmax if kmax is not None else d) + 1))
    t = [attrs[i] for i in rng.permutation(d)[:k]]
    return tuple(t)


def gen_case(rng, tier, idx):
    base = c01.gen_case(rng, tier, 0)  # idx 0 => static model
    attrs, shape = base['attrs'], base['shape']
    d = len(attrs)
    ops = []
    n = int(rng.randint(6, 13))
    names = [gen.pick(rng, OPS) for _ in range(n)]
    has_kron = 'krondot' in names
    if has_kron and base['scale'] > 10:
        # re-scale potentials into exp()'s range
        f = 10.0 / base['scale']
        base['pots'] = [(s, np.where(np.isfinite(a), a * f, a)) for s, a in base['pots']]
        base['scale'] = 10.0
    for nm in names:
        if nm == 'project':
            if d <= 4 and rng.rand() < 0.5:
                allsub = [p for k in range(0, d + 1) for c in itertools.combinations(attrs, k)
                          for p in (itertools.permutations(c) if k <= 3 else [c])]
                t = tuple(allsub[int(rng.randint(len(allsub)))])
            else:
                t = _rand_tuple(rng, attrs)
            ops.append(('project', t, bool(rng.rand() < 0.3)))  # third: pass as list
        elif nm == 'bulk':
            k = int(rng.randint(1, 6))
            projs = [_rand_tuple(rng, attrs, min(d, 3)) for _ in range(k)]
            ops.append(('bulk', projs))
        elif nm == 'krondot':
            mats = [rng.normal(size=(int(rng.randint(1, 4)), s)) for s in shape]
            ops.append(('krondot', mats))
        elif nm == 'datavector':
            ops.append(('datavector', bool(rng.rand() < 0.5)))
        elif nm == 'synthetic':
            ops.append(('synthetic', int(gen.pick(rng, [1, 7, 60, 300])), gen.pick(rng, ['round', 'round', 'sample']), int(rng.randint(2 ** 31))))
        else:
            ops.append((nm,))
    base['ops'] = ops
    base['kind'] = 'history'
    return base


def describe(case):
    d = c01.describe(dict(case, kind='static'))
    d['history'] = [(o[0], [list(x) for x in o[1]] if o[0] == 'bulk' else (list(o[1]) if o[0] == 'project' else (list(o[1:3]) if o[0] == 'synthetic' else
                                                                       ([list(m.shape) for m in o[1]] if o[0] == 'krondot' else list(o[1:])))))
                    for o in case['ops']]
    return d


def _cmp(ctx, monitor, got_attrs, got, ref, rtol, atol, what, total, want_attrs=None):
    ctx.mon('answers_checked')
    if want_attrs is not None and tuple(got_attrs) != tuple(want_attrs):
        return ctx.check(False, monitor, 'layout', '%s: answered over %r, requested %r' % (what, got_attrs, want_attrs))
    got = np.asarray(got, dtype=float)
    if got.shape != ref.shape:
        return ctx.check(False, monitor, 'shape', '%s: shape %r, expected %r' % (what, got.shape, ref.shape))
    if not np.isfinite(got).all():
        return ctx.check(False, monitor, 'nonfinite', '%s: non-finite answer' % what)
    ok = models.close(got, ref, rtol, atol)
    if ok and total is not None:
        ok = abs(float(got.sum()) - total) <= max(1e-7, rtol) * total
        if not ok:
            return ctx.check(False, monitor, 'total', '%s: answer sums to %r, model total %r' % (what, float(got.sum()), total))
    return ctx.check(ok, monitor, 'mismatch', lambda: '%s: max|diff|=%.3e got %s want %s' % (
        what, models.maxdiff(got, ref), np.array2string(got.ravel()[:6], precision=6),
        np.array2string(ref.ravel()[:6], precision=6)))


def run_case(case, ctx):
    m = models.mbi()
    attrs, shape, total = case['attrs'], case['shape'], case['total']
    rng = np.random.RandomState(case['np_seed'] % (2 ** 32))
    model = models.make_model(attrs, shape, case['cliques'], total, case['elim'], np_seed=case['np_seed'])
    model.potentials = models.place_potentials(model, attrs, shape, case['pots'], rng, case['permute_prob'])
    P = oracles.joint(attrs, shape, case['pots'], total)
    rtol = c01._rtol(c01._maxabs(model.potentials))
    atol = 1e-9 * total
    if int(np.prod(shape)) < 2:
        ctx.trivial = True
    ctx.tag('cls:' + case['cls'])
    reloaded = False
    cache_states = set()
    for op in case['ops']:
        cached = hasattr(model, 'marginals')
        cache_states.add(cached)
        mon_extra = 'after_reload' if reloaded else None
        ctx.tag('op:' + op[0] + (':cached' if cached else ':cold'))
        with np.errstate(all='ignore'):
            if op[0] == 'project':
                q = list(op[1]) if op[2] else tuple(op[1])
                f = model.project(q)
                at, v = models.factor_parts(f)
                ref = oracles.marginal(P, attrs, list(op[1]))
                ok = _cmp(ctx, 'project', at, v, ref, rtol, atol, 'project(%r) cached=%s' % (q, cached), total, op[1])
                # the same question with the cache in the other state must give the same answer
                if ok:
                    if cached:
                        saved = model.marginals
                        del model.marginals
                        f2 = model.project(q)
                        model.marginals = saved
                    else:
                        model.marginals = model.belief_propagation(model.potentials)
                        f2 = model.project(q)
                        del model.marginals
                    at2, v2 = models.factor_parts(f2)
                    _cmp(ctx, 'cache_independence', at2, v2, ref, rtol, atol,
                         'project(%r) with cache flipped to %s' % (q, not cached), total, op[1])
            elif op[0] == 'bulk':
                projs = [tuple(p) for p in op[1]]
                ans = model.calculate_many_marginals(projs)
                for p in projs:
                    if p not in ans:
                        ctx.check(False, 'bulk', 'missing', 'calculate_many_marginals dropped %r' % (p,))
                        continue
                    at, v = models.factor_parts(ans[p])
                    _cmp(ctx, 'bulk', at, v, oracles.marginal(P, attrs, list(p)), rtol, atol,
                         'calculate_many_marginals[%r]' % (p,), total, p)
            elif op[0] == 'krondot':
                mats = op[1]
                got = model.krondot(mats)
                ref = P
                for ax, Q in enumerate(mats):
                    ref = np.moveaxis(np.tensordot(Q, ref, axes=([1], [ax])), 0, ax)
                scale = float(np.prod([np.abs(Q).sum(axis=1).max() for Q in mats])) * total
                _cmp(ctx, 'krondot', None, got, ref, rtol, 1e-9 * max(scale, total), 'krondot', None)
            elif op[0] == 'datavector':
                flat = op[1]
                got = model.datavector(flatten=flat)
                ref = P.reshape(-1) if flat else P
                _cmp(ctx, 'datavector', None, got, ref, rtol, atol, 'datavector(flatten=%s)' % flat, total)
            elif op[0] == 'reload':
                fd, path = tempfile.mkstemp(prefix='vf-c02-', suffix='.pkl')
                os.close(fd)
                try:
                    m.GraphicalModel.save(model, path)
                    model = m.GraphicalModel.load(path)
                finally:
                    os.unlink(path)
                reloaded = True
                f = model.project(tuple(attrs[:min(2, len(attrs))]))
                at, v = models.factor_parts(f)
                _cmp(ctx, 'after_reload', at, v, oracles.marginal(P, attrs, list(at)), rtol, atol,
                     'project after save+load', total)
                full = model.datavector(flatten=False)
                _cmp(ctx, 'after_reload', None, full, P, rtol, atol, 'datavector after save+load', total)
            elif op[0] == 'synthetic':
                # using the model (generating records) must not change what it answers afterwards
                np.random.seed(op[3] % (2 ** 32))
                model.synthetic_data(rows=op[1], method=op[2])
                ctx.mon('synthetic_data_calls')
            elif op[0] == 'cache':
                model.marginals = model.belief_propagation(model.potentials)
            elif op[0] == 'uncache':
                if hasattr(model, 'marginals'):
                    del model.marginals
        if mon_extra and op[0] in ('project', 'bulk', 'krondot', 'datavector'):
            ctx.mon('queries_after_reload')
        if ctx.failures:
            break
    ctx.stat('cache_states_per_history', len(cache_states))


TECHNIQUE = 'runtime monitoring: recorded query/cache/persistence histories on the real model, each answer compared with a brute-force joint (reference model)'
LEVEL_TEXT = ('Held on the histories observed: random operation sequences mixing single, bulk, Kronecker and full-vector '
              'queries with cache population/deletion and save+load, every answer compared with the explicit joint in the '
              'requested attribute order and re-asked with the cache in the opposite state. Sampling over structures up '
              'to 7 attributes; all subsets x orderings are enumerated only for <= 4 attributes (sampled from).')
LEVEL_NOTE = 'Trusts the brute-force joint (numpy) and numpy.tensordot for the Kronecker reference; persistence goes through a real temp file.'
