"""C18 - approximate (local) estimation is valid, and exact when nothing is relaxed.

Post-condition on LocalInference.estimate for the three marginal oracles: completes without
error; every measured clique's table is finite, non-negative and sums to the total; the fit
(loss recomputed by the harness from model.project) is no worse than the uniform start's;
with the convex oracle the returned tables are primal feasible to the tolerance the estimator
enforces; on disjoint measured cliques the loss reaches the certified exact optimum.  A spy on
_marginal_loss records the losses the estimator itself evaluated (needed to recognise the
recorded finding F10 by mechanism).
"""
import numpy as np

from .. import gen, models, measure, estim
from ..models import quiet

ID = 'C18'
RULE = ('domain 2-5 attrs (<= 400 cells) x structure {chain, loop, disjoint, nested, repeated, random} x oracle {convex, approx, '
        'pairwise} x noise 0.1-100 x N in {1,20,1000} x total given / None x iterations {1,2,3,5,10,20,51,52,60,100,200,1000}; '
        'disjoint families additionally escalate 300 -> 1000 -> 3000 -> 10000 iterations for the exactness clause; distinct = '
        'content hash; non-trivial = always')
ANCHORS = ['LocalInference.estimate', 'LocalInference.mirror_descent', 'LocalInference.mirror_descent_auto', 'LocalInference._setup',
           'LocalInference._marginal_loss', 'RegionGraph.hazan_peng_shashua', 'RegionGraph.generalized_belief_propagation',
           'FactorGraph.loopy_belief_propagation', 'RegionGraph.project', 'FactorGraph.project']
DECIDING = ['completes', 'tables_valid', 'fit_not_worse_than_uniform', 'convex_primal_feasible', 'exact_on_disjoint_cliques']
ASSUMPTIONS = ['fit clause: loss <= loss_uniform*(1+1e-9); exactness clause as C03 (relative sub-optimality <= 0.03 within 300 -> 10000 iterations)',
               'LocalInference takes explicit query matrices (it has no fix_measurements step), so queries are never None here',
               'the pairwise-convex oracle needs cvxopt (not installed) and is not part of the quantifier']
PLAN = {
    'quick': dict(cases=162, budget_s=180, case_timeout=600, min_cases=30),
    'thorough': dict(cases=1500, budget_s=1200, case_timeout=1200, min_cases=250),
}
ITERS = [1, 2, 3, 5, 10, 20, 51, 52, 60, 100, 200, 1000]
ORACLES = ['convex', 'approx', 'pairwise']


def gen_case(rng, tier, idx):
    oracle = ORACLES[idx % 3]
    exact = (idx // 3) % 3 == 2
    attrs, shape = gen.domain(rng, 2, 5, sizes=(2, 3, 4), max_cells=400)
    structure = 'disjoint' if exact else gen.pick(rng, ['cyclic', 'nested', 'repeated', 'random', 'random', 'disjoint'])
    N = float(gen.pick(rng, [1, 20, 1000])) if not exact else float(gen.pick(rng, [20, 100, 230, 800, 1000]))
    meas, info = measure.gen_measurements(rng, attrs, shape, 1, 4, N=N, structure=structure, min_cells=2, max_cells=64,
                                          qkinds=['identity', 'identity', 'dense', 'sparse', 'prefix', 'tall'])
    balanced = (idx % 19 == 18)
    if balanced:
        # measured counts exactly those of the uniform table: the start is already optimal and the loss is stationary
        for m_ in meas:
            n = int(np.prod([shape[attrs.index(a)] for a in m_['proj']]))
            m_['y'] = (m_['Q'] @ (np.ones(n) * max(1.0, N) / n)) if m_['Q'] is not None else np.ones(n) * max(1.0, N) / n
    if exact:
        # the exactness clause is about the optimum, not about conditioning: one noise scale per problem
        # half of them in the regime where the step size that survives the first 50 iterations is still close to
        # unstable (counts in the hundreds, noise around 1): that is where a missing step reduction shows
        s0 = float(gen.pick(rng, measure.SIGMAS)) if rng.rand() < 0.5 else float(gen.pick(rng, [0.5, 0.85, 1.0, 1.7]))
        two_levels = rng.rand() < 0.4
        for j_, m_ in enumerate(meas):
            m_['y'] = m_['y'] + 0.0
            m_['sigma'] = s0 * (4.0 if (two_levels and j_ % 2 == 1) else 1.0)
        if rng.rand() < 0.35:
            # one clique released twice, at two accuracies, with answers that disagree (drawn from another table): the
            # optimum weighs them by their inverse variances.  The family of measured cliques stays disjoint.
            m0 = meas[int(rng.randint(len(meas)))]
            n0 = int(np.prod([shape[attrs.index(a)] for a in m0['proj']]))
            s2 = m0['sigma'] * float(gen.pick(rng, [4.0, 0.25]))
            x2 = measure.true_table(rng, [n0], N).reshape(-1)
            meas.append(dict(Q=np.eye(n0), kind='identity', y=x2 + rng.normal(0, s2, n0), sigma=s2, proj=tuple(m0['proj'])))
    if oracle == 'pairwise':
        # the factor-graph oracle needs every attribute of the domain in some factor
        covered = set(a for m_ in meas for a in m_['proj'])
        for a in attrs:
            if a not in covered:
                n = shape[attrs.index(a)]
                meas.append(dict(Q=np.eye(n), kind='identity', y=np.ones(n) * N / n + rng.normal(0, 1.0, n), sigma=float(gen.pick(rng, [1.0, 10.0])), proj=(a,)))
    return dict(attrs=attrs, shape=shape, meas=meas, structure=structure, N=N, oracle=oracle, exact=bool(exact),
                iters=int(gen.pick(rng, ITERS)), total=(None if (rng.rand() < 0.3 and not balanced) else float(max(1.0, N))), balanced=bool(balanced),
                spellings=[gen.pick(rng, ['dense', 'dense', 'csr']) for _ in meas], np_seed=int(rng.randint(2 ** 31)))


def describe(case):
    return dict(attrs=case['attrs'], shape=case['shape'], oracle=case['oracle'], iters=case['iters'], total=case['total'], N=case['N'],
                structure=case['structure'], exactness_clause=case['exact'],
                measurements=[dict(proj=list(m['proj']), kind=m['kind'], sigma=m['sigma']) for m in case['meas']])


def uniform_loss(attrs, shape, plain, total):
    f = 0.0
    for Q, y, s, proj in plain:
        n = int(np.prod([shape[attrs.index(a)] for a in proj]))
        x = np.ones(n) * total / n
        r = ((x if Q is None else Q @ x) - y) / s
        f += 0.5 * float(r @ r)
    return f


def run_local(m, dom, tuples, total, oracle, iters, prior=None, as_object=False):
    if as_object:
        # the oracle handed over as a ready-made object (constructed with its own default total): the estimator
        # must give it the total of the estimate() call, exactly as it does for the oracle it builds from a name
        cl_ = [tuple(t[3]) for t in tuples]
        orc = (m.RegionGraph(dom, cl_, convex=(oracle == 'convex'), iters=1) if oracle in ('approx', 'convex')
               else m.FactorGraph(dom, cl_, convex=(oracle == 'pairwise-convex'), iters=1))
        orc.potentials = m.CliqueVector.zeros(dom, orc.cliques)
        eng = m.LocalInference(dom, iters=iters, marginal_oracle=orc)
    else:
        eng = m.LocalInference(dom, iters=iters, marginal_oracle=oracle)
    if prior is not None:
        # the estimator object has a history: one (or a dozen) earlier estimate() calls on the same cliques with other answers
        for pr in (prior if isinstance(prior[0], list) else [prior]):
            with quiet(), np.errstate(all='ignore'):
                eng.estimate(list(pr), total=total)
    seen = []
    orig = eng._marginal_loss

    def spy(marginals, metric=None):
        out = orig(marginals, metric)
        seen.append(out[0])
        return out

    eng._marginal_loss = spy
    with quiet(), np.errstate(all='ignore'):
        model = eng.estimate(list(tuples), total=total)
    return eng, model, seen


def run_case(case, ctx):
    m = models.mbi()
    attrs, shape, oracle = case['attrs'], case['shape'], case['oracle']
    dom = models.make_domain(attrs, shape)
    tuples = [(Q, y, s, tuple(p)) for Q, y, s, p in measure.as_tuples(case['meas'], case['spellings'])]
    plain = measure.plain_tuples(case['meas'])
    ctx.tag('oracle:' + oracle)
    ctx.tag('structure:' + case['structure'])
    ctx.tag('iters:%d' % case['iters'])
    if case.get('balanced'):
        ctx.tag('balanced_counts')
    np.random.seed(case['np_seed'] % (2 ** 32))
    schedule = [case['iters']] if not case['exact'] else [300, 1000, 3000, 10000]
    rel = None
    history = []
    for iters in schedule:
        prior = None
        if case['np_seed'] % 4 == 0 and not case.get('balanced'):
            prng = np.random.RandomState(case['np_seed'] % (2 ** 32))
            prior = [(Q, np.asarray(y) * 0.5 + prng.normal(0, s_, size=np.asarray(y).shape), s_, p) for Q, y, s_, p in tuples]
            ctx.tag('estimator_object_reused')
            if case['np_seed'] % 16 == 4 and iters <= 100 and not case['exact']:
                # a mechanism loop: the same engine object answers a dozen measurement sets in a row
                prior = [[(Q, np.asarray(y) * (0.5 + 0.1 * k_) + prng.normal(0, s_, size=np.asarray(y).shape), s_, p) for Q, y, s_, p in tuples] for k_ in range(12)]
                ctx.tag('estimator_object_reused_12_times')
        try:
            as_object = prior is None and case['np_seed'] % 4 == 1
            if as_object:
                ctx.tag('ready_made_oracle_object')
            eng, model, seen = run_local(m, dom, tuples, case['total'], oracle, iters, prior, as_object)
        except Exception as e:
            import traceback
            fu0 = uniform_loss(attrs, shape, plain, case['total']) if case['total'] is not None else None
            ynorm = float(sum(float(np.sum((np.asarray(y_) / s_) ** 2)) for _q, y_, s_, _p in plain))
            ctx.check(False, 'completes', 'exception', 'LocalInference(%s, iters=%d).estimate raised %s: %s | %s' % (
                oracle, iters, type(e).__name__, str(e)[:200], traceback.format_exc()[-600:]), oracle=oracle, exc_type=type(e).__name__,
                uniform_loss=fu0, y_norm2=ynorm,
                measured_cliques_overlap=any(set(p1[3]) & set(p2[3]) for i_, p1 in enumerate(plain) for p2 in plain[i_ + 1:] if set(p1[3]) != set(p2[3])))
            return
        ctx.check(True, 'completes', '', '')
        total = float(model.total)
        info = dict(oracle=oracle, iters=iters, last_internal_loss=(seen[-1] if seen else None),
                    min_internal_loss=(min(seen) if seen else None))
        # tables for every measured clique
        bad = None
        for Q, y, s, proj in plain:
            with np.errstate(all='ignore'):
                v = np.asarray(model.project(tuple(proj)).values, dtype=float)
            if not np.isfinite(v).all():
                bad = 'table on %r is not finite' % (proj,)
            elif (v < -1e-12 * total).any():
                bad = 'table on %r has a negative entry %r' % (proj, float(v.min()))
            elif abs(float(v.sum()) - total) > 1e-9 * total:
                bad = 'table on %r sums to %r, total %r' % (proj, float(v.sum()), total)
            if bad:
                break
        ctx.check(bad is None, 'tables_valid', 'invalid_table', '%s, %d iterations: %s' % (oracle, iters, bad), **info)
        if bad:
            return
        with np.errstate(all='ignore'):
            f = models.measurement_loss(model, plain)
        fu = uniform_loss(attrs, shape, plain, total)
        info['uniform_loss'] = fu
        ctx.stat('loss_over_uniform', f / fu if fu > 0 else 1.0)
        ctx.check(f <= fu * (1 + 1e-9) + 1e-12, 'fit_not_worse_than_uniform', 'worse_than_uniform',
                  '%s, %d iterations: loss %r exceeds the uniform start\'s %r (last loss the estimator evaluated: %r)' % (
                      oracle, iters, f, fu, info['last_internal_loss']), **info)
        if oracle == 'convex':
            with np.errstate(all='ignore'):
                pf = float(model.primal_feasibility(model.marginals))
            ctx.stat('convex_primal_feasibility', pf)
            ctx.check(pf < 1.0, 'convex_primal_feasible', 'infeasible', 'convex oracle returned tables with primal_feasibility %r >= 1.0 after %d iterations' % (pf, iters), **info)
        if not case['exact']:
            return
        if case['total'] is None:
            # exact estimation would use the minimum-variance total (C09's reference); so must local estimation
            from . import c09
            t_ref = c09.reference_total([dict(Q=(mm['Q'] if mm['Q'] is not None else np.eye(mm['y'].size)), y=mm['y'], sigma=mm['sigma'])
                                         for mm in case['meas']])
            if t_ref is not None:
                ctx.check(abs(total - t_ref) <= 1e-6 * t_ref, 'exact_on_disjoint_cliques', 'total_differs_from_exact_estimation',
                          '%s: estimated total %r, exact estimation would use %r' % (oracle, total, t_ref), oracle=oracle)
                if ctx.failures:
                    return
        fstar, gap, fu2, _p, adequate = estim.optimum(attrs, shape, plain, total)
        if not adequate:
            ctx.mon('oracle_gap_too_large')
            return
        scale = max(1.0, fstar)
        denom = fu2 - fstar
        rel = 0.0 if (f - fstar) <= 1e-7 * scale else ((f - fstar) / denom if denom > 1e-9 * scale else float('inf'))
        history.append(rel)
        if rel <= 0.03:
            break
        ctx.mon('escalations')
    if case['exact'] and rel is not None and rel > 0.03 and len(history) >= 2 and history[-1] < 0.8 * history[-2]:
        # still descending steadily at the largest budget: slow, not wrong - inconclusive for this case
        ctx.mon('slow_but_still_converging_not_judged')
        ctx.stat('slow_case_rel_at_10000', rel)
        return
    if case['exact'] and rel is not None:
        ctx.stat('disjoint_relative_suboptimality', max(rel, 0.0))
        ctx.check(rel <= 0.03, 'exact_on_disjoint_cliques', 'not_exact_on_disjoint',
                  '%s on disjoint cliques after %d iterations: loss %r, exact optimum %r, uniform %r (rel %.4f)' % (oracle, iters, f, fstar, fu2, rel),
                  oracle=oracle)
        ctx.check(f >= fstar - gap - 1e-7 * scale - 1e-6 * max(fu2 - fstar, 0), 'exact_on_disjoint_cliques', 'below_optimum',
                  '%s on disjoint cliques: loss %r below the certified lower bound %r' % (oracle, f, fstar - gap), oracle=oracle)


def inconclusive_reasons(monitors, tags, stats, tier):
    n = monitors.get('exact_on_disjoint_cliques', 0) // 2 + monitors.get('slow_but_still_converging_not_judged', 0)
    slow = monitors.get('slow_but_still_converging_not_judged', 0)
    if n and slow > max(2, 0.1 * n):
        return ['%d of %d disjoint-clique cases were still converging at 10000 iterations (not judged)' % (slow, n)]
    return []


def _f10(case, failure):
    """F10: mirror_descent_auto returns the iterate after the last gradient step without evaluating its loss.
    Mechanism signature: the fit is worse than uniform although the last loss the estimator itself evaluated
    was not - only the unvalidated final step is."""
    d = failure.get('data', {})
    try:
        last, fu = float(d.get('last_internal_loss')), float(d.get('uniform_loss'))
    except Exception:
        return False
    return failure['kind'] == 'worse_than_uniform' and last <= fu * (1 + 1e-9) + 1e-12


def _f15(case, failure):
    """F15: when the uniform start is already (numerically) optimal the loss is stationary up to ~1e-28 of message-passing
    rounding noise (needs overlapping measured cliques, i.e. messages); an uptick of that size in the first 50 iterations makes mirror_descent_auto restart with half the
    step, which changes nothing, so it restarts for ever: RecursionError (region-graph oracles)."""
    d = failure.get('data', {})
    try:
        fu, yn = float(d.get('uniform_loss')), float(d.get('y_norm2'))
    except Exception:
        return False
    return (failure['kind'] == 'exception' and d.get('exc_type') == 'RecursionError' and d.get('oracle') in ('convex', 'approx')
            and bool(d.get('measured_cliques_overlap')) and fu <= 1e-18 * max(1.0, yn))


FINDINGS = {'F10': _f10}  # F15 (unbounded step-size restarts) was repaired in /repo (189ad68), its two witnesses are regression cases; F14 (repeated cliques in FactorGraph) was repaired in /repo (b8597f6); its witness is a regression case


def fixed_cases(tier):
    rng = np.random.RandomState(3)
    attrs, shape = ['A', 'B', 'C'], [3, 3, 3]
    mk = lambda seed: [dict(Q=np.eye(9), kind='identity', y=np.random.RandomState(seed + i).rand(9) * 100, sigma=1.0, proj=p)
                       for i, p in enumerate([('A', 'B'), ('B', 'C'), ('A', 'C')])]
    out = []
    # F7 (repaired): pairwise oracle, > 50 iterations, loss upticks
    for seed in (0, 1, 2, 4):
        out.append(('fixed:F7_seed%d' % seed, dict(attrs=attrs, shape=shape, meas=mk(seed * 10), structure='cyclic', N=100.0, oracle='pairwise',
                                                   exact=False, iters=200, total=100.0, spellings=['dense'] * 3, np_seed=seed)))
    # F10 (open): one iteration with the initial step 10.0 that is never loss-checked
    w = dict(attrs=attrs, shape=shape, meas=mk(7), structure='cyclic', N=100.0, oracle='convex', exact=False, iters=1, total=100.0,
             spellings=['dense'] * 3, np_seed=7)
    out.append(('witness:F10', w))
    bal = [dict(Q=np.eye(6), kind='identity', y=np.ones(6) * 10.0, sigma=1.0, proj=p) for p in [('A', 'B'), ('B', 'C')]]
    out.append(('fixed:F15', dict(attrs=['A', 'B', 'C'], shape=[2, 3, 2], meas=bal, structure='balanced', N=60.0, oracle='convex', exact=False,
                                    iters=60, total=60.0, balanced=True, spellings=['dense'] * 2, np_seed=1)))
    import os
    import pickle
    wp = os.path.join(os.path.dirname(os.path.dirname(os.path.dirname(os.path.abspath(__file__)))), 'witnesses', 'C18_F14.pkl')
    if os.path.exists(wp):
        with open(wp, 'rb') as f:
            out.append(('fixed:F14', pickle.load(f)))
    wp = os.path.join(os.path.dirname(wp), 'C18_F15_pairwise.pkl')
    if os.path.exists(wp):
        with open(wp, 'rb') as f:
            w_ = pickle.load(f)
            out.append(('fixed:F15_pairwise', w_['case'] if isinstance(w_, dict) and 'case' in w_ else w_))
    return out


TECHNIQUE = 'runtime monitoring: post-condition on the model returned by the real LocalInference.estimate for each marginal oracle (validity, fit vs uniform, feasibility, certified optimum on disjoint cliques) with a spy on the losses the estimator evaluated'
LEVEL_TEXT = ('Held on the estimates observed: no exception for convex / approx / pairwise, measured cliques\' tables finite, non-negative '
              'and summing to the total, loss not above the uniform start\'s, convex tables primal feasible (< 1.0) on return, and on '
              'disjoint clique families the loss within 3% of the certified exact optimum within an escalating budget. Fits worse than '
              'uniform caused only by the never-evaluated final step (F10) are reported as KNOWN-FINDING.')
LEVEL_NOTE = 'Loss and uniform loss are recomputed by the harness from model.project; the exact optimum comes with a duality-gap certificate.'
