"""C12 - every constructed junction tree is valid, with a valid message schedule.

Invariant at a hook: a post-condition installed on JunctionTree.__init__ validates every tree
that any code builds (tree-ness, cover, attributes, maximality, running intersection,
schedule, separators, accessors).  The driver enumerates the quantifier's finite part
exhaustively and samples the rest; an 'embedded' segment lets estimators build the trees.
"""
import itertools
import math

import networkx as nx
import numpy as np

from .. import gen, models, monitors
from ..core import digest
from ..models import quiet

ID = 'C12'
COUNT_UNITS = True
RULE = ('unit = one constructed JunctionTree (clique set, elimination-order mode). Exhaustive part: every labelled '
        'graph on 1-5 attributes x every elimination order (+ default and int modes, + the same graph given as its '
        'maximal cliques in shuffled attribute order); 6-vertex graphs up to isomorphism x orders (60 sampled in '
        'quick, all 720 in thorough); 7-vertex graphs x sampled orders (thorough); random clique sets on 7-12 '
        'attributes; trees built by FactoredInference / mechanisms-style model sizing. evaluations counts trees; '
        'distinct = enumerated (graph, order, form) triples, distinct by construction, plus content hashes of sampled ones')
ANCHORS = ['JunctionTree.__init__', 'JunctionTree._make_graph', 'JunctionTree._triangulated', 'JunctionTree._greedy_order',
           'JunctionTree._make_tree', 'JunctionTree.mp_order', 'JunctionTree.separator_axes', 'JunctionTree.neighbors',
           'JunctionTree.maximal_cliques']
DECIDING = ['jt_invariant']
ASSUMPTIONS = ['networkx is_connected / subgraph are trusted for the reference checks',
               '6- and 7-vertex graphs are taken up to isomorphism from the networkx graph atlas with random relabelling']

N_SMALL = 1 + 2 + 8 + 64          # labelled graphs on 1..4 vertices
N5 = 1024
N6 = 156
N7 = 1044
PLAN = {
    'quick': dict(cases=N_SMALL + N5 + N6 + 160 + 24, budget_s=150, case_timeout=120, min_cases=N_SMALL + N5),
    'thorough': dict(cases=N_SMALL + N5 + N6 + N7 + 4000 + 400, budget_s=900, case_timeout=600,
                     min_cases=N_SMALL + N5 + N6),
}
LETTERS = ['a', 'b', 'c', 'd', 'e', 'f', 'g', 'h', 'i', 'j', 'k', 'l']
_atlas = None


def atlas(n):
    global _atlas
    if _atlas is None:
        _atlas = {}
        for g in nx.graph_atlas_g():
            _atlas.setdefault(g.number_of_nodes(), []).append(g)
    return _atlas[n]


def _small_index(idx):
    """idx -> (n, graph bitmask) for n = 1..4."""
    for n in (1, 2, 3, 4):
        cnt = 2 ** (n * (n - 1) // 2)
        if idx < cnt:
            return n, idx
        idx -= cnt
    raise IndexError


def gen_case(rng, tier, idx):
    base = dict(seed=int(rng.randint(2 ** 31)))
    if idx < N_SMALL:
        n, g = _small_index(idx)
        return dict(base, kind='labelled', n=n, g=g, orders='all')
    idx -= N_SMALL
    if idx < N5:
        return dict(base, kind='labelled', n=5, g=idx, orders='all')
    idx -= N5
    if idx < N6:
        return dict(base, kind='atlas', n=6, g=idx, orders=60 if tier == 'quick' else 'all')
    idx -= N6
    if tier == 'thorough':
        if idx < N7:
            return dict(base, kind='atlas', n=7, g=idx, orders=400)
        idx -= N7
    nrand = 160 if tier == 'quick' else 4000
    if idx < nrand:
        return dict(base, kind='random', count=25)
    return dict(base, kind='embedded')


def describe(case):
    return case


def _edges_of(n, g):
    pairs = list(itertools.combinations(range(n), 2))
    return [pairs[k] for k in range(len(pairs)) if (g >> k) & 1]


def run_case(case, ctx):
    m = models.mbi()
    rng = np.random.RandomState(case['seed'])
    state = {'bad': None}

    def on_result(jt, errs):
        ctx.mon('jt_invariant')
        if errs and state['bad'] is None:
            state['bad'] = (list(jt.cliques), list(jt.domain.attrs), list(jt.domain.shape),
                            getattr(jt, 'elimination_order', None), errs)

    inv = monitors.JTInvariant(on_result).install()
    try:
        if case['kind'] in ('labelled', 'atlas'):
            _enumerate(case, ctx, m, rng)
        elif case['kind'] == 'random':
            _random(case, ctx, m, rng)
        else:
            _embedded(case, ctx, m, rng)
    finally:
        inv.remove()
    if state['bad'] is not None:
        cl, at, sh, eo, errs = state['bad']
        ctx.fail('invalid_tree', 'cliques=%r attrs=%r shape=%r elimination_order=%r: %s' % (cl, at, sh, eo, '; '.join(errs[:3])),
                 cliques=cl, attrs=at, shape=sh, order=eo)



def _enumerate(case, ctx, m, rng):
    from mbi.junction_tree import JunctionTree
    n = case['n']
    if case['kind'] == 'labelled':
        edges = _edges_of(n, case['g'])
        names = LETTERS[:n]
    else:
        G = atlas(n)[case['g']]
        relabel = rng.permutation(n)
        edges = [(int(relabel[a]), int(relabel[b])) for a, b in G.edges()]
        names = LETTERS[:n]
    if case['seed'] % 4 == 0:
        # attribute names that are Python ints (what pandas gives an unnamed frame), in an order other than 0..n-1
        names = list(range(n))
        ctx.tag('attribute_names:int')
    ctx.tag('%s:n=%d' % (case['kind'], n))
    # attribute order of the domain and attribute sizes vary per batch (the greedy order depends on sizes)
    dom_attrs = [names[i] for i in rng.permutation(n)]
    sizes = [int(gen.pick(rng, [1, 2, 3, 5])) for _ in dom_attrs]
    dom = m.Domain(dom_attrs, sizes)
    cliques_edge = [(names[a], names[b]) if rng.rand() < 0.5 else (names[b], names[a]) for a, b in edges]
    H = nx.Graph()
    H.add_nodes_from(names)
    H.add_edges_from((names[a], names[b]) for a, b in edges)
    cliques_hyper = [gen.shuffled(rng, c) for c in nx.find_cliques(H)]
    perms = list(itertools.permutations(names))
    if case['orders'] != 'all' and len(perms) > case['orders']:
        perms = [perms[i] for i in rng.choice(len(perms), size=case['orders'], replace=False)]
        exhaustive = False
    else:
        exhaustive = True
    for order in perms:
        JunctionTree(dom, cliques_edge, list(order))
        ctx.units += 1
        ctx.exhaustive_units += 1 if exhaustive else 0
        if not exhaustive:
            ctx.unit_sigs.add(digest(('e', n, sorted(map(sorted, cliques_edge)), order)))
    hyper_perms = perms if (n <= 4 and exhaustive) else [perms[i] for i in rng.choice(len(perms), size=min(20, len(perms)), replace=False)]
    for order in hyper_perms:
        JunctionTree(dom, cliques_hyper, list(order))
        ctx.units += 1
        if n <= 4 and exhaustive:
            ctx.exhaustive_units += 1
        else:
            ctx.unit_sigs.add(digest(('h', n, sorted(map(sorted, cliques_hyper)), order)))
    np.random.seed(case['seed'] % (2 ** 32))
    for mode in (None, 1, 4):
        for cl in (cliques_edge, cliques_hyper):
            JunctionTree(dom, cl, mode)
            ctx.units += 1
            ctx.unit_sigs.add(digest(('m', n, dom_attrs, sizes, sorted(map(sorted, cl)), mode, case['seed'])))
    ctx.tag('orders:' + ('all' if exhaustive else 'sampled'))


def _random(case, ctx, m, rng):
    from mbi.junction_tree import JunctionTree
    np.random.seed(case['seed'] % (2 ** 32))
    # one wide, sparse model per batch: 64-100 attributes (a census file has that many), cliques of 2-4 attributes along a
    # random tree plus a few chords; attributes late in the domain are shared by several cliques
    wd = int(gen.pick(rng, [64, 65, 80, 100]))
    wnames = ['x%d' % i for i in rng.permutation(wd)]
    wdom = m.Domain(wnames, [int(gen.pick(rng, [2, 2, 3])) for _ in wnames])
    wcl = []
    for i in range(1, wd):
        par = int(rng.randint(max(0, i - 6), i))
        cl = [wnames[i], wnames[par]] + ([wnames[int(rng.randint(wd - 8, wd))]] if rng.rand() < 0.5 else []) + ([wnames[int(rng.randint(i))]] if rng.rand() < 0.15 else [])
        wcl.append(tuple(dict.fromkeys(cl)))
    worder = None if rng.rand() < 0.5 else [wnames[i] for i in rng.permutation(wd)]
    if worder is None or rng.rand() < 0.3:
        JunctionTree(wdom, wcl, worder)
        ctx.units += 1
        ctx.unit_sigs.add(digest(('w', wnames, wcl, worder)))
        ctx.tag('random:wide:%d' % wd)
    for _ in range(case['count']):
        d = int(rng.randint(7, 13))
        names = [LETTERS[i] for i in rng.permutation(12)[:d]]
        sizes = [int(gen.pick(rng, [1, 2, 2, 3])) for _ in names]
        dom = m.Domain(names, sizes)
        cls = gen.pick(rng, ['hyper', 'hyper', 'cycle', 'grid', 'components', 'nested', 'duplicated', 'permuted', 'empty', 'star'])
        _, cliques = gen.cliques(rng, names, cls)
        mode = gen.pick(rng, ['none', 'perm', 'perm', 'int'])
        order = None if mode == 'none' else ([names[i] for i in rng.permutation(d)] if mode == 'perm' else int(rng.randint(1, 5)))
        JunctionTree(dom, cliques, order)
        ctx.units += 1
        ctx.unit_sigs.add(digest(('r', names, sizes, cliques, order if mode != 'int' else ('int', order, case['seed']))))
        ctx.tag('random:' + cls + ':' + mode)


def _embedded(case, ctx, m, rng):
    """Trees as the estimators / mechanisms build them: growing measurement sets, structural
    zeros, model sizing of candidate cliques, out-of-clique projections."""
    if rng.rand() < 0.5:
        # trees built by a shipped mechanism run (model sizing of every candidate, warm-start estimates, compressed domains)
        from .. import mechrun
        mech = gen.pick(rng, ['aim', 'mwem', 'mst', 'adagrid'])
        attrs, shape, rows = mechrun.gen_dataset(rng)
        H = mechrun.harness(5)
        before = ctx.monitors.get('jt_invariant', 0)
        H.run(mechrun.gen_config(rng, mech, attrs, shape), attrs, shape, rows, 'record', case['seed'], case['seed'] + 1)
        built = ctx.monitors.get('jt_invariant', 0) - before
        ctx.units += built
        ctx.unit_sigs.add(digest(('mech', mech, case['seed'])))
        ctx.mon('trees_built_by_mechanisms', built)
        ctx.tag('embedded:' + mech)
        return
    attrs, shape = gen.domain(rng, 3, 6, sizes=(2, 3), max_cells=2000)
    dom = m.Domain(attrs, shape)
    ctx.tag('embedded')
    cliques = []
    eng = m.FactoredInference(dom, iters=2, warm_start=True, elim_order=None if rng.rand() < 0.7 else [attrs[i] for i in rng.permutation(len(attrs))])
    meas = []
    before = ctx.monitors.get('jt_invariant', 0)
    for rnd in range(int(rng.randint(2, 5))):
        k = int(rng.randint(1, min(3, len(attrs)) + 1))
        cl = tuple(attrs[i] for i in rng.permutation(len(attrs))[:k])
        # AIM / MWEM style sizing of every candidate before choosing
        for cand in itertools.combinations(attrs, 2):
            m.GraphicalModel(dom, cliques + [cand]).size
        n = int(np.prod([shape[attrs.index(a)] for a in cl]))
        meas.append((None, rng.rand(n) * 10, 1.0, cl))
        cliques.append(cl)
        with quiet(), np.errstate(all='ignore'):
            model = eng.estimate(list(meas), total=10.0, engine=gen.pick(rng, ['MD', 'RDA', 'IG']))
    built = ctx.monitors.get('jt_invariant', 0) - before
    ctx.units += built
    ctx.unit_sigs.add(digest(('emb', case['seed'])))
    ctx.mon('trees_built_by_estimators', built)


def EXHAUSTIVE(tier, tags):
    if tags.get('labelled:n=5', 0) == N5 and all(tags.get('labelled:n=%d' % n, 0) == 2 ** (n * (n - 1) // 2) for n in (1, 2, 3, 4)):
        s = 'every labelled graph on 1-5 attributes x every elimination order (122 880 trees for n=5)'
        if tier == 'thorough' and tags.get('atlas:n=6', 0) == N6:
            s += '; all 156 six-vertex graphs up to isomorphism x all 720 orders'
        return s
    return None


TECHNIQUE = 'runtime monitoring: invariant hook on JunctionTree.__init__ (structure + schedule + separators), driven by exhaustive enumeration of small graphs x elimination orders and random larger clique sets'
LEVEL_TEXT = ('Every JunctionTree constructed during the run is validated by a post-condition on its constructor. The '
              'quantifier\'s finite part (labelled graphs on <= 5 attributes x all elimination orders) is enumerated '
              'completely on every run (exhaustive: true for that part); 6-/7-vertex graphs, larger random clique sets, '
              'default/int order modes and trees built inside estimators are sampled.')
LEVEL_NOTE = 'Trusts networkx connectivity routines used by the validator; attribute sizes and domain order are varied per batch, not enumerated.'
