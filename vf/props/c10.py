"""C10 - structural zeros carry no mass in any answer.

Monitor: after every FactoredInference.estimate of a (cold or warm-start) history, every
answer of the returned model - in-clique and out-of-clique marginals, the full vector and
synthetic records in both modes - is checked against the declared zero set expanded by the
harness onto the answered attributes.
"""
import itertools

import numpy as np

from .. import gen, models, measure, estim, oracles

ID = 'C10'
RULE = ('random domain (2-4 attrs, <= 240 cells) x zero specification (1-3 keys: on a measured clique, a sub-clique, an '
        'unmeasured group, a single attribute; attribute order of keys arbitrary; overlapping keys) x history of 1-3 estimates '
        '(cold engine or one warm-start engine, solver per call from {MD, RDA, IG}, 5-200 iterations, changing measurement '
        'sets); distinct = content hash; non-trivial = at least one declared-impossible cell')
ANCHORS = ['Factor.active', 'FactoredInference.__init__', 'FactoredInference._setup', 'CliqueVector.combine',
           'GraphicalModel.project', 'GraphicalModel.datavector', 'GraphicalModel.synthetic_data',
           'FactoredInference.dual_averaging', 'FactoredInference.interior_gradient', 'FactoredInference.mirror_descent']
DECIDING = ['zero_cells_empty', 'mass_conserved', 'synthetic_records_avoid_zeros']
ASSUMPTIONS = ['mass is conserved to rtol min(1e-4, max(1e-9, 256*eps*max|parameter|))', '"zero" for floating-point answers means <= 1e-80*total (RDA / IG refit parameters through log(mu + 1e-100) by design); synthetic records are judged exactly',
               'zero sets leave at least half of every key\'s cells possible, so a feasible distribution exists',
               'RDA / IG measurements use projections of >= 2 cells']
PLAN = {
    'quick': dict(cases=200, budget_s=120, case_timeout=300, min_cases=30),
    'thorough': dict(cases=4000, budget_s=900, case_timeout=600, min_cases=666),
}


def gen_case(rng, tier, idx):
    attrs, shape = gen.domain(rng, 2, 4, sizes=(2, 3, 4), max_cells=240)
    d = len(attrs)
    n_of = lambda t: int(np.prod([shape[attrs.index(a)] for a in t]))
    ncalls = int(gen.pick(rng, [1, 1, 2, 3]))
    warm = bool(ncalls > 1 and rng.rand() < 0.7)
    calls = []
    measured = []
    for c in range(ncalls):
        meas, _ = measure.gen_measurements(rng, attrs, shape, 1, 3, N=float(gen.pick(rng, [50, 1000])), min_cells=2, max_cells=48,
                                           qkinds=['none', 'identity', 'dense', 'prefix', 'sparse'])
        measured += [m['proj'] for m in meas]
        calls.append(dict(meas=meas, solver=gen.pick(rng, ['MD', 'RDA', 'IG']), iters=int(gen.pick(rng, [5, 50, 200]))))
    zeros = {}
    for _ in range(int(rng.randint(1, 4))):
        where = gen.pick(rng, ['measured', 'sub', 'unmeasured', 'single'])
        if where == 'measured':
            key = measured[int(rng.randint(len(measured)))]
        elif where == 'sub':
            base = measured[int(rng.randint(len(measured)))]
            key = tuple(base[i] for i in rng.permutation(len(base))[:max(1, len(base) - 1)])
        elif where == 'single':
            key = (attrs[int(rng.randint(d))],)
        else:
            k = int(rng.randint(1, min(d, 3) + 1))
            key = tuple(attrs[i] for i in rng.permutation(d)[:k])
        key = gen.shuffled(rng, key)
        if key in zeros or n_of(key) < 2:
            continue
        nz = int(rng.randint(1, max(2, n_of(key) // 2)))
        cells = list(dict.fromkeys(tuple(int(rng.randint(shape[attrs.index(a)])) for a in key) for _ in range(nz)))
        zeros[key] = cells
    total = float(gen.pick(rng, [1.0, 100.0, 1000.0]))
    return dict(attrs=attrs, shape=shape, zeros=zeros, calls=calls, warm=warm, total=total, give_total=bool(rng.rand() < 0.7),
                rows=gen.pick(rng, [None, 50, 1000]), np_seed=int(rng.randint(2 ** 31)))


def describe(case):
    return dict(attrs=case['attrs'], shape=case['shape'], zeros={str(k): v for k, v in case['zeros'].items()}, warm=case['warm'],
                total=case['total'] if case['give_total'] else None,
                calls=[dict(solver=c['solver'], iters=c['iters'], measured=[list(m['proj']) for m in c['meas']]) for c in case['calls']])


def forbidden_mask(attrs, shape, zeros):
    Z = np.zeros(tuple(shape), dtype=bool)
    for key, cells in zeros.items():
        for cell in cells:
            idx = [slice(None)] * len(attrs)
            for a, v in zip(key, cell):
                idx[attrs.index(a)] = v
            Z[tuple(idx)] = True
    return Z


def judge(ctx, model, attrs, shape, Z, rows, what, solver):
    total = float(model.total)
    thr = 1e-80 * total
    info = dict(solver=solver)
    # belief propagation / variable elimination normalise in log space: parameters of magnitude M cost ~ulp(M) of
    # relative accuracy in every answer (thorough tier: 4e-9 with MD parameters ~1e6 next to structural zeros)
    mx = estim.max_abs_potential(model)
    sum_rtol = min(1e-4, max(1e-9, 256 * np.finfo(float).eps * (mx if np.isfinite(mx) else 1e308)))

    def check_answer(name, at, v):
        v = np.asarray(v, dtype=float)
        if not np.isfinite(v).all():
            return ctx.check(False, 'zero_cells_empty', 'nonfinite', '%s%s is not finite' % (what, name), **info)
        others = tuple(i for i, a in enumerate(attrs) if a not in at)
        forb = Z.all(axis=others) if others else Z
        kept = [a for a in attrs if a in at]
        forb = np.transpose(forb, [kept.index(a) for a in at]) if len(at) else forb
        mass = float(v[forb].max()) if forb.any() else 0.0
        ctx.stat('largest_mass_in_a_forbidden_cell_over_total', mass / total)
        ctx.check(mass <= thr, 'zero_cells_empty', 'mass_in_zero_cell',
                  '%s%s puts %.3e (total %g) into a declared-impossible cell' % (what, name, mass, total), **info)
        ctx.check(abs(float(v.sum()) - total) <= sum_rtol * total, 'mass_conserved', 'mass_lost',
                  '%s%s sums to %r, total %r' % (what, name, float(v.sum()), total), **info)

    with np.errstate(all='ignore'):
        check_answer('datavector', list(attrs), model.datavector(flatten=False))
        subsets = [c for k in range(1, len(attrs) + 1) for c in itertools.combinations(attrs, k)]
        for sset in subsets:
            f = model.project(tuple(sset))
            at, v = models.factor_parts(f)
            inclique = any(set(sset) <= set(cl) for cl in model.cliques)
            ctx.tag('answer:in_clique' if inclique else 'answer:out_of_clique')
            check_answer('project%r' % (tuple(sset),), list(at), v)
        if int(total) >= 1 or rows:
            for method in ('round', 'sample'):
                synth = model.synthetic_data(rows=rows, method=method)
                vals = synth.df[list(attrs)].values
                n = vals.shape[0]
                want = int(total) if rows is None else rows
                ok = n == want and (vals >= 0).all() and (vals < np.array(shape)).all() if n else n == want
                ctx.check(ok, 'synthetic_records_avoid_zeros', 'synthetic_shape', '%ssynthetic_data(%s): %d rows (wanted %d) or values out of range' % (what, method, n, want), **info)
                if ok and n:
                    hits = int(Z[tuple(vals.T)].sum())
                    ctx.check(hits == 0, 'synthetic_records_avoid_zeros', 'record_in_zero_cell',
                              '%ssynthetic_data(method=%s) produced %d of %d records in declared-impossible cells' % (what, method, hits, n), **info)


def run_case(case, ctx):
    m = models.mbi()
    attrs, shape = case['attrs'], case['shape']
    dom = models.make_domain(attrs, shape)
    Z = forbidden_mask(attrs, shape, case['zeros'])
    if not Z.any():
        ctx.trivial = True
    if Z.all():
        ctx.trivial = True
        return
    ctx.tag('warm:%s' % case['warm'])
    np.random.seed(case['np_seed'] % (2 ** 32))
    engine = None
    import copy
    zeros_live = copy.deepcopy(case['zeros'])      # the caller's own specification object, reused (and extended) across engines
    n_of = lambda t: int(np.prod([shape[attrs.index(a)] for a in t]))
    for k, call in enumerate(case['calls']):
        if k >= 1 and not case['warm'] and case['np_seed'] % 3 == 0 and zeros_live:
            # the caller rules out one more cell by appending to the very list it passed before, then builds a new estimator
            key0 = next(iter(zeros_live))
            have = set(map(tuple, zeros_live[key0]))
            cand = [c for c in itertools.product(*[range(shape[attrs.index(a)]) for a in key0]) if c not in have]
            if cand and len(have) + 1 <= max(1, n_of(key0) // 2):
                pick = cand[int(np.random.randint(len(cand)))]
                trial = copy.deepcopy(zeros_live)
                trial[key0].append(pick)
                if forbidden_mask(attrs, shape, trial).all():
                    # together with the other lists this cell would rule out every cell of the domain: no distribution
                    # satisfies such a specification and the property says nothing about it (quick seed 7, g119 was a
                    # false alarm of this kind: the model handed back sums to 0 because nothing is possible)
                    ctx.tag('extension_skipped_would_empty_the_support')
                else:
                    zeros_live[key0].append(pick)
                    Z = forbidden_mask(attrs, shape, zeros_live)
                    ctx.tag('zero_list_extended_in_place_between_estimators')
        ctx.tag('solver:' + call['solver'])
        total = case['total'] if case['give_total'] else None
        if case['warm']:
            if engine is None:
                engine = m.FactoredInference(dom, structural_zeros=zeros_live, iters=call['iters'], warm_start=True)
            engine, model = estim.estimate(dom, measure.as_tuples(call['meas']), total, call['solver'], call['iters'], engine=engine)
        else:
            engine_c, model = estim.estimate(dom, measure.as_tuples(call['meas']), total, call['solver'], call['iters'], zeros=zeros_live)
        judge(ctx, model, attrs, shape, Z, case['rows'], 'call %d (%s, %d iters, warm=%s): ' % (k, call['solver'], call['iters'], case['warm']),
              call['solver'])
        if ctx.failures:
            break


def fixed_cases(tier):
    """Witness of the repaired finding F2 (RDA used to drop the initial parameters)."""
    rng = np.random.RandomState(0)
    attrs, shape = ['A', 'B', 'C'], [2, 3, 2]
    meas = [dict(Q=None, kind='none', y=rng.rand(6) * 100, sigma=1.0, proj=('A', 'B')),
            dict(Q=None, kind='none', y=rng.rand(6) * 100, sigma=1.0, proj=('B', 'C'))]
    case = dict(attrs=attrs, shape=shape, zeros={('A', 'B'): [(0, 0), (1, 2)]},
                calls=[dict(meas=meas, solver='RDA', iters=200)], warm=False, total=1000.0, give_total=True, rows=None, np_seed=1)
    return [('fixed:F2', case)]


TECHNIQUE = 'runtime monitoring: every answer of every model returned along cold and warm-start estimate histories checked against the declared zero set expanded by the harness; synthetic records checked exactly'
LEVEL_TEXT = ('Held on the histories observed: for MD, RDA and IG, cold and warm start, no answer (all attribute subsets, full '
              'vector) carries more than 1e-80*total in a cell all of whose completions are declared impossible, mass sums to '
              'the total, and no synthetic record (round and sample modes) falls into a declared-impossible cell. Sampling over '
              'domains <= 240 cells.')
LEVEL_NOTE = 'The forbidden set is expanded by the harness with numpy boolean reductions; nothing from the repository is used in the oracle.'
