"""C20 - selection and noise primitives are exactly calibrated.

Monitor: a recording pseudo-random generator (handed in as ``prng`` or patched over
numpy.random) captures the ``p=`` vector each primitive gives to ``choice`` and the ``scale``
each sampler gives to ``normal`` / ``laplace``.  Reference: softmax in log space (mpmath for
the huge-magnitude cases).
"""
import math

import numpy as np

from .. import env, gen, models, oracles
from ..core import digest

ID = 'C20'
COUNT_UNITS = True
RULE = ('unit = one primitive call whose choice-probabilities or noise scale were captured and judged; per case a '
        'quality vector (length 1-50, ties, magnitude 1e-2..1e6, optional constant shift up to 1e6), eps in '
        '[1e-2,30] (and inf for adaptive_grid), sensitivity 0.1-10, optional base measure, driven through every '
        'primitive of mechanism.py / mst.py / adaptive_grid.py / mwem+pgm.py / aim.py; distinct by content hash')
ANCHORS = ['Mechanism.exponential_mechanism', 'Mechanism.generalized_exponential_mechanism', 'Mechanism.laplace_noise_scale',
           'Mechanism.gaussian_noise_scale', 'Mechanism.gaussian_noise', 'Mechanism.laplace_noise',
           'Mechanism.best_noise_distribution', 'exponential_mechanism', 'worst_approximated', 'AIM.worst_approximated', 'measure']
DECIDING = ['em_probabilities', 'shift_invariance', 'noise_scale']
ASSUMPTIONS = ['gaussian_noise_scale is judged relative to the harness stand-in for autodp (sensitivity handling only)',
               'adaptive_grid eps=inf is driven with sensitivity >= 1 (0.5*float_max/sensitivity overflows below 0.5; not used by the shipped mechanism)',
               'probability comparison rtol max(1e-9, 64*eps_machine*max|score|) on entries above 1e-300',
               'permute_and_flip makes no choice() call and is used by no shipped mechanism: out of scope']
PLAN = {
    'quick': dict(cases=900, budget_s=60, case_timeout=60, min_cases=150),
    'thorough': dict(cases=15000, budget_s=600, case_timeout=60, min_cases=2500),
}


class Rec:
    """Recording stand-in for numpy.random / a RandomState."""

    def __init__(self):
        self.choices = []
        self.normals = []
        self.laplaces = []

    def choice(self, a, size=None, replace=True, p=None):
        self.choices.append((a, None if p is None else np.array(p, dtype=float)))
        if p is None:
            return 0 if size is None else np.zeros(size, dtype=int)
        return int(np.argmax(np.nan_to_num(np.asarray(p, dtype=float), nan=-1.0)))

    def normal(self, loc=0.0, scale=1.0, size=None):
        self.normals.append((loc, scale, size))
        return np.zeros(size if size is not None else ())

    def laplace(self, loc=0.0, scale=1.0, size=None):
        self.laplaces.append((loc, scale, size))
        return np.zeros(size if size is not None else ())


def gen_case(rng, tier, idx):
    n = int(gen.pick(rng, [1, 2, 3, 5, 10, 50]))
    mag = float(gen.pick(rng, [1e-2, 1.0, 30.0, 1e3, 1e6]))
    q = rng.normal(size=n) * mag
    if n > 2 and rng.rand() < 0.4:  # ties
        q[rng.randint(n, size=max(1, n // 3))] = q[0]
    if rng.rand() < 0.2:
        q = np.round(q)
    eps = float(gen.pick(rng, [1e-2, 0.1, 1.0, 3.0, 30.0]))
    sens = float(gen.pick(rng, [0.1, 0.5, 1.0, 2.0, 10.0]))
    base = rng.rand(n) * 3 + 1e-3 if rng.rand() < 0.5 else None
    if base is not None and n >= 2 and rng.rand() < 0.25:
        # the best candidate is ruled out (measure 0) or all but ruled out (1e-200) by the base measure
        base[int(np.argmax(q))] = float(gen.pick(rng, [0.0, 1e-200]))
    shift = float(gen.pick(rng, [1.0, -50.0, 1e3, 1e6, -1e6]))
    return dict(q=q, mag=mag, eps=eps, sens=sens, base=base, shift=shift, sub_seed=int(rng.randint(2 ** 31)),
                bounded=bool(rng.rand() < 0.5), penalty=bool(rng.rand() < 0.5))


def describe(case):
    return dict(n=int(case['q'].size), magnitude=case['mag'], eps=case['eps'], sensitivity=case['sens'],
                base_measure=case['base'] is not None, shift=case['shift'], q_head=case['q'][:5])


def ref_probs(q, coef, base_log=None, mp=False):
    """normalised probabilities proportional to exp(coef*q + base_log)."""
    q = np.asarray(q, dtype=float)
    if mp:
        import mpmath as M
        M.mp.dps = 60
        s = [M.mpf(float(c)) * M.mpf(float(v)) + (M.mpf(float(b)) if base_log is not None else 0)
             for v, b, c in zip(q, base_log if base_log is not None else q, [coef] * q.size)]
        mx = max(s)
        e = [M.e ** (v - mx) for v in s]
        tot = sum(e)
        return np.array([float(v / tot) for v in e])
    s = coef * q + (0 if base_log is None else np.asarray(base_log, dtype=float))
    return np.exp(oracles.softmax_log(s))


def judge_p(ctx, monitor, what, p, ref, smax):
    ctx.units += 1
    p = None if p is None else np.asarray(p, dtype=float)
    if p is None or p.shape != ref.shape:
        return ctx.check(False, monitor, 'shape', '%s: p has shape %r, expected %r' % (what, None if p is None else p.shape, ref.shape))
    # scores of magnitude S carry an absolute rounding error of a few ulp(S) in log space
    rtol = max(1e-9, 64 * np.finfo(float).eps * smax)
    if not np.isfinite(p).all() or (p < 0).any() or abs(p.sum() - 1) > rtol:
        return ctx.check(False, monitor, 'invalid_p', '%s: probabilities %s (sum %r)' % (what, np.array2string(p[:6]), float(np.sum(p))))
    big = ref > 1e-300
    ok = bool(np.all(np.abs(p[big] - ref[big]) <= rtol * ref[big])) and bool(np.all(p[~big] <= 1e-290))
    ctx.stat('max_abs_score', smax)
    return ctx.check(ok, monitor, 'miscalibrated', lambda: '%s: p=%s expected %s (rtol %.1e)' % (
        what, np.array2string(p[:6], precision=12), np.array2string(ref[:6], precision=12), rtol))


def run_case(case, ctx):
    m = models.mbi()
    q, eps, sens, base, shift = case['q'], case['eps'], case['sens'], case['base'], case['shift']
    n = q.size
    rng = np.random.RandomState(case['sub_seed'])
    mech_mod = env.load_mechanism('mechanism')
    mst = env.load_mechanism('mst')
    ag = env.load_mechanism('adaptive_grid')
    mp = case['mag'] >= 1e3
    smax = lambda c, v: float(abs(c) * np.max(np.abs(v))) if v.size else 0.0
    ctx.unit_sigs.add(digest(case))
    ctx.tag('mag:%g' % case['mag'])

    # ---- Mechanism.exponential_mechanism: array, list, dict; base measure; shift ----------
    for bounded in (False, True):
        rec = Rec()
        M = mech_mod.Mechanism(1.0, 0.0, bounded, prng=rec)   # delta = 0 skips the 0.3 s cdp_rho bisection in the constructor
        coef = eps / (2 * sens)
        with np.errstate(divide='ignore'):
            blog = None if base is None else np.log(base)
        ref = ref_probs(q, coef, blog, mp)
        held = q.copy()   # one float64 array object handed in twice: the second selection must be calibrated like the first
        held_base = None if base is None else blog.copy()
        M.exponential_mechanism(held, eps, sens, base_measure=held_base)
        judge_p(ctx, 'em_probabilities', 'Mechanism.exponential_mechanism(array)', rec.choices[-1][1], ref, smax(coef, q))
        M.exponential_mechanism(held, eps, sens, base_measure=held_base)
        judge_p(ctx, 'em_probabilities', 'Mechanism.exponential_mechanism(array), second call with the same array object', rec.choices[-1][1], ref, smax(coef, q))
        if base is None:
            M.exponential_mechanism(list(q), eps, sens)
            judge_p(ctx, 'em_probabilities', 'Mechanism.exponential_mechanism(list)', rec.choices[-1][1], ref, smax(coef, q))
        keys = ['k%d' % i for i in rng.permutation(n)]
        qd = dict(zip(keys, q))
        bd = None if base is None else dict(zip(keys, base))
        if bd is not None:  # same content, another insertion order: candidates are matched by key, not by position
            bd = {k: bd[k] for k in [keys[i] for i in rng.permutation(n)]}
        got = M.exponential_mechanism(dict(qd), eps, sens, base_measure=None if bd is None else dict(bd))
        judge_p(ctx, 'em_probabilities', 'Mechanism.exponential_mechanism(dict)', rec.choices[-1][1], ref, smax(coef, q))
        ctx.check(got == keys[int(np.argmax(rec.choices[-1][1]))], 'em_probabilities', 'key_mapping',
                  'dict form returned key %r for index %d' % (got, int(np.argmax(rec.choices[-1][1]))))
        M.exponential_mechanism(q + shift, eps, sens, base_measure=None if base is None else blog.copy())
        judge_p(ctx, 'shift_invariance', 'Mechanism.exponential_mechanism(q%+g)' % shift, rec.choices[-1][1], ref,
                smax(coef, q + shift))
        # generalized EM: calibration of the final selection (scores taken from the module's own scoring)
        ds = rng.rand(n) * 2 + 0.1
        t = 2 * math.log(n / 0.5) / eps
        # the harness's own scores, over all pairs (no Pareto pruning): -max_j ((t*ds_i - q_i) - (t*ds_j - q_j)) / (ds_i + ds_j)
        r_ = t * ds - q
        scores = -((r_[:, None] - r_[None, :]) / (ds[:, None] + ds[None, :])).max(axis=1)
        held_q, held_ds = q.copy(), ds.copy()      # the caller's arrays, handed in twice
        for nth in ('', ', second call with the same array objects'):
            M.generalized_exponential_mechanism(held_q, held_ds, eps, base_measure=None if base is None else blog.copy())
            judge_p(ctx, 'em_probabilities', 'generalized_exponential_mechanism(array)' + nth, rec.choices[-1][1],
                    ref_probs(scores, eps / 2.0, blog, mp), smax(eps / 2.0, scores))
        ctx.check(np.array_equal(held_q, q) and np.array_equal(held_ds, ds), 'em_probabilities', 'caller_array_modified',
                  'generalized_exponential_mechanism changed the quality / sensitivity arrays it was given')
        dsd = dict(zip(keys, ds))
        dsd = {k: dsd[k] for k in [keys[i] for i in rng.permutation(n)]}
        got = M.generalized_exponential_mechanism(dict(qd), dsd, eps, base_measure=None if bd is None else dict(bd))
        judge_p(ctx, 'em_probabilities', 'generalized_exponential_mechanism(dict)', rec.choices[-1][1],
                ref_probs(scores, eps / 2.0, blog, mp), smax(eps / 2.0, scores))

        # ---- noise helpers and samplers ----------------------------------------------------
        l1, l2 = float(rng.rand() * 5 + 0.1), float(rng.rand() * 5 + 0.1)
        f = 2.0 if bounded else 1.0
        b = M.laplace_noise_scale(l1, eps)
        ctx.units += 1
        ctx.check(b == f * l1 / eps, 'noise_scale', 'laplace_scale', 'laplace_noise_scale(%r, %r) bounded=%s -> %r' % (l1, eps, bounded, b))
        import autodp.privacy_calibrator as pc
        dl = float(gen.pick(rng, [1e-9, 1e-6, 1e-3]))
        sg = M.gaussian_noise_scale(l2, eps, dl)
        want = f * l2 * pc.ana_gaussian_mech(eps, dl)['sigma']
        ctx.units += 1
        ctx.check(abs(sg - want) <= 1e-12 * want, 'noise_scale', 'gaussian_scale',
                  'gaussian_noise_scale(%r, %r, %r) bounded=%s -> %r, expected %r' % (l2, eps, dl, bounded, sg, want))
        size = int(rng.randint(1, 20))
        M.gaussian_noise(sg, size)
        M.laplace_noise(b, size)
        ctx.units += 2
        ctx.check(rec.normals[-1] == (0, sg, size), 'noise_scale', 'gaussian_sampler', 'gaussian_noise(%r,%r) drew normal%r' % (sg, size, rec.normals[-1]))
        ctx.check(rec.laplaces[-1] == (0, b, size), 'noise_scale', 'laplace_sampler', 'laplace_noise(%r,%r) drew laplace%r' % (b, size, rec.laplaces[-1]))
        sampler = M.best_noise_distribution(l1, l2, eps, dl)
        nn, nl = len(rec.normals), len(rec.laplaces)
        sampler(size)
        ctx.units += 1
        if math.sqrt(2) * b < sg:
            ok = len(rec.laplaces) == nl + 1 and rec.laplaces[-1] == (0, b, size)
        else:
            ok = len(rec.normals) == nn + 1 and rec.normals[-1] == (0, sg, size)
        ctx.check(ok, 'noise_scale', 'best_noise', 'best_noise_distribution(l1=%r,l2=%r,eps=%r,delta=%r): b=%r sigma=%r, drew %r / %r' % (
            l1, l2, eps, dl, b, sg, rec.normals[-1:], rec.laplaces[-1:]))

    # ---- mst.exponential_mechanism and adaptive_grid.exponential_mechanism ----------------------
    for name, fn in (('mst', mst.exponential_mechanism), ('adaptive_grid', ag.exponential_mechanism)):
        for mono in (False, True):
            rec = Rec()
            coef = (1.0 if mono else 0.5) * eps / sens
            ref = ref_probs(q, coef, None, mp)
            held = q.copy()
            fn(held, eps, sens, prng=rec, monotonic=mono)
            judge_p(ctx, 'em_probabilities', '%s.exponential_mechanism(monotonic=%s)' % (name, mono), rec.choices[-1][1], ref, smax(coef, q))
            fn(held, eps, sens, prng=rec, monotonic=mono)
            judge_p(ctx, 'em_probabilities', '%s.exponential_mechanism(monotonic=%s), second call with the same array object' % (name, mono),
                    rec.choices[-1][1], ref, smax(coef, q))
            fn(q + shift, eps, sens, prng=rec, monotonic=mono)
            judge_p(ctx, 'shift_invariance', '%s.exponential_mechanism(q%+g, monotonic=%s)' % (name, shift, mono),
                    rec.choices[-1][1], ref, smax(coef, q + shift))
    rec = Rec()
    s_inf = max(1.0, sens)
    ag.exponential_mechanism(q.copy(), np.inf, s_inf, prng=rec)
    top = (q == q.max())
    judge_p(ctx, 'em_probabilities', 'adaptive_grid.exponential_mechanism(eps=inf)', rec.choices[-1][1], top / top.sum(), 0.0)

    # ---- mst.measure: the scale drawn with is the scale reported ---------------------------------
    attrs, shape = ['a', 'b', 'c'], [2, 3, 2]
    dom = m.Domain(attrs, shape)
    import pandas as pd
    df = pd.DataFrame({a: rng.randint(s, size=12) for a, s in zip(attrs, shape)})
    data = m.Dataset(df, dom)
    cliques = [('a',), ('b', 'c'), ('a', 'c')]
    wts = None if rng.rand() < 0.5 else list(rng.rand(3) + 0.1)
    sigma = float(rng.rand() * 10 + 0.1)
    rec = Rec()
    saved = np.random.normal
    np.random.normal = rec.normal
    try:
        ms = mst.measure(data, cliques, sigma, wts)
    finally:
        np.random.normal = saved
    w = np.ones(3) if wts is None else np.array(wts)
    w = w / math.sqrt(float(np.sum(w ** 2)))
    ctx.units += 1
    ok = len(rec.normals) == 3 and all(abs(rec.normals[i][1] - sigma / w[i]) <= 1e-12 * sigma / w[i] and
                                       rec.normals[i][1] == ms[i][2] and rec.normals[i][0] == 0 for i in range(3))
    ctx.check(ok, 'noise_scale', 'measure_scale', 'mst.measure(sigma=%r, weights=%r): drew %r, reported %r' % (
        sigma, wts, [x[1] for x in rec.normals], [x[2] for x in ms]))

    # ---- worst_approximated (mwem+pgm and AIM): qualities recomputed by the harness -----------------
    mw = env.load_mechanism('mwem_pgm')
    aim = env.load_mechanism('aim')
    model = models.make_model(attrs, shape, [('a', 'b'), ('b', 'c')], total=12.0)
    pots = [(('a', 'b'), rng.normal(size=(2, 3))), (('b', 'c'), rng.normal(size=(3, 2)))]
    model.potentials = models.place_potentials(model, attrs, shape, pots)
    P = oracles.joint(attrs, shape, pots, 12.0)
    workload = [('a', 'b'), ('b', 'c'), ('c', 'a'), ('a',), ('c', 'b', 'a')]
    workload = [workload[i] for i in rng.permutation(len(workload))[:int(rng.randint(1, 6))]]
    scale_up = float(gen.pick(rng, [1.0, 1.0, 1e3, 1e5]))
    answers = {cl: data.project(cl).datavector() * scale_up for cl in workload}
    errs = np.array([float(np.abs(answers[cl] - oracles.marginal(P, attrs, list(cl)).reshape(-1)).sum())
                     - (int(np.prod([shape[attrs.index(a)] for a in cl])) if case['penalty'] else 0) for cl in workload])
    rec = Rec()
    saved = np.random.choice
    np.random.choice = rec.choice
    try:
        got = mw.worst_approximated(answers, model, list(workload), eps, penalty=case['penalty'], bounded=case['bounded'])
    finally:
        np.random.choice = saved
    coef = eps / (2 * (2.0 if case['bounded'] else 1.0))
    judge_p(ctx, 'em_probabilities', 'mwem+pgm.worst_approximated(bounded=%s, penalty=%s)' % (case['bounded'], case['penalty']),
            rec.choices[-1][1] if rec.choices else None, ref_probs(errs, coef, None, scale_up >= 1e3), smax(coef, errs))
    if rec.choices:
        ctx.check(got == workload[int(np.argmax(rec.choices[-1][1]))], 'em_probabilities', 'key_mapping', 'worst_approximated returned %r' % (got,))
    rec = Rec()
    A = aim.AIM(1.0, 0.0, prng=None)
    A.prng = rec
    wg = {cl: float(gen.pick(rng, [0.5, 1.0, 2.0, 3.0])) for cl in workload}
    sigma = float(rng.rand() * 5 + 0.1)
    errs = np.array([wg[cl] * (float(np.abs(answers[cl] - oracles.marginal(P, attrs, list(cl)).reshape(-1)).sum())
                               - math.sqrt(2 / math.pi) * sigma * int(np.prod([shape[attrs.index(a)] for a in cl]))) for cl in workload])
    got = A.worst_approximated(dict(wg), answers, model, eps, sigma)
    coef = eps / (2 * max(wg.values()))
    judge_p(ctx, 'em_probabilities', 'AIM.worst_approximated', rec.choices[-1][1] if rec.choices else None,
            ref_probs(errs, coef, None, scale_up >= 1e3), smax(coef, errs))


TECHNIQUE = 'runtime monitoring: recording PRNG captures the probability vector / noise scale each real primitive hands to numpy.random; compared with an independent log-space (mpmath for huge scores) softmax'
LEVEL_TEXT = ('Held on every primitive call observed: the p= vector given to choice equals base * exp(eps*q/(2*sens)) normalised '
              '(factor 1 for monotonic), is unchanged under constant shifts up to 1e6 and finite for 1e6-magnitude scores; '
              'scale helpers and samplers pass on exactly the specified scale. Sampling over quality vectors, eps, '
              'sensitivities and base measures.')
LEVEL_NOTE = 'The Gaussian calibration constant comes from the harness stand-in for autodp; only the sensitivity handling around it is judged.'
