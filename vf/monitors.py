"""Monitors installed on the real repository classes by patching class attributes."""
import itertools

import networkx as nx


def validate_junction_tree(jt):
    """All structural invariants of property C12 evaluated on a constructed JunctionTree.
    Returns a list of human-readable violations (empty = valid)."""
    errs = []
    attrs = list(jt.domain.attrs)
    tree = jt.tree
    nodes = list(tree.nodes())
    nodesets = [frozenset(n) for n in nodes]
    # 1. tree-ness
    if len(nodes) == 0:
        if attrs:
            errs.append('tree has no nodes')
        return errs
    if tree.number_of_edges() != len(nodes) - 1 or not nx.is_connected(tree):
        errs.append('not a tree: %d nodes, %d edges, connected=%s' % (len(nodes), tree.number_of_edges(),
                                                                   nx.is_connected(tree)))
    if any(len(n) != len(set(n)) for n in nodes):
        errs.append('a node repeats an attribute: %r' % (nodes,))
    # 2. cover of every input clique
    for cl in jt.cliques:
        if not any(set(cl) <= s for s in nodesets):
            errs.append('input clique %r is contained in no node %r' % (cl, nodes))
            break
    # 3. every attribute present
    present = set().union(*nodesets) if nodesets else set()
    if present != set(attrs):
        errs.append('attributes %r missing from the tree / foreign %r' % (sorted(set(attrs) - present),
                                                                         sorted(present - set(attrs))))
    # 4. maximality, no duplicates
    for a, b in itertools.combinations(range(len(nodes)), 2):
        if nodesets[a] <= nodesets[b] or nodesets[b] <= nodesets[a]:
            errs.append('node %r and node %r: one contains the other' % (nodes[a], nodes[b]))
            break
    # 5. running intersection
    for x in attrs:
        holding = [n for n in nodes if x in n]
        if holding and not nx.is_connected(tree.subgraph(holding)):
            errs.append('running intersection broken for attribute %r: nodes %r not connected' % (x, holding))
            break
    # 6. schedule
    order = list(jt.mp_order())
    directed = {(a, b) for a, b in tree.edges()} | {(b, a) for a, b in tree.edges()}
    if len(order) != len(set(order)) or set(order) != directed:
        errs.append('schedule is not each directed edge exactly once: %d entries, %d distinct, %d edges' % (
            len(order), len(set(order)), len(directed)))
    else:
        pos = {msg: k for k, msg in enumerate(order)}
        for (i, j) in order:
            for k in tree.neighbors(i):
                if k != j and pos[(k, i)] > pos[(i, j)]:
                    errs.append('message %r scheduled before the message %r it depends on' % ((i, j), (k, i)))
                    break
            else:
                continue
            break
    # 7. separators
    sep = jt.separator_axes()
    if set(sep.keys()) != directed:
        errs.append('separator_axes keys are not the directed edges')
    else:
        for (i, j), s in sep.items():
            if set(s) != set(i) & set(j) or len(s) != len(set(s)):
                errs.append('separator of %r is %r, expected %r' % ((i, j), s, sorted(set(i) & set(j))))
                break
    # 8. neighbours / 9. maximal cliques
    nb = jt.neighbors()
    if set(nb.keys()) != set(nodes) or any(set(nb[n]) != set(tree.neighbors(n)) for n in nodes if n in nb):
        errs.append('neighbors() disagrees with the tree')
    mc = list(jt.maximal_cliques())
    if sorted(mc) != sorted(nodes):
        errs.append('maximal_cliques() %r is not the node set %r' % (mc, nodes))
    return errs


class JTInvariant:
    """Post-condition on JunctionTree.__init__: every tree any code builds is validated."""

    def __init__(self, on_result):
        self.on_result = on_result
        self.cls = None
        self.orig = None

    def install(self):
        from mbi.junction_tree import JunctionTree
        self.cls = JunctionTree
        self.orig = orig = JunctionTree.__init__
        on_result = self.on_result

        def __init__(jt, *a, **k):
            orig(jt, *a, **k)
            on_result(jt, validate_junction_tree(jt))

        JunctionTree.__init__ = __init__
        return self

    def remove(self):
        if self.cls is not None:
            self.cls.__init__ = self.orig
            self.cls = None
