"""Paired-execution privacy monitor (properties C05 and C06).

numpy.random.normal / laplace / choice are replaced while a mechanism runs.  A noise call
returns an ndarray subclass whose __add__/__radd__ fires when the mechanism evaluates
``statistic + noise``: that is a *release* event and captures the true operand, the scale
passed and the noisy value.  The selection primitives are wrapped so that a ``choice`` made
while one of them is on the stack is a *selection* event capturing the probability vector.
Every other random call (synthetic-data rounding, reverse_data, ...) is post-processing and
goes to the global generator, seeded identically in both runs.

Run 1 (dataset D) records the event log; run 2 (neighbour D') replays it - each release
returns the recorded noisy value, each selection the recorded index - while recording the
operand / probabilities D' would have had.
"""
import math

import numpy as np

from . import env


class ReplayMismatch(Exception):
    pass


class Noise(np.ndarray):
    """Freshly drawn noise.  Adding it to (or subtracting it from) anything is the release event;
    scaling it by a scalar keeps it noise with a scaled scale; any other use makes the run
    inconclusive (counted as opaque)."""
    __array_priority__ = 1000.0

    def __array_finalize__(self, obj):
        self.vf = getattr(obj, 'vf', None)

    def __array_ufunc__(self, ufunc, method, *inputs, out=None, **kwargs):
        mon = self.vf
        plain = [np.asarray(x) if isinstance(x, Noise) else x for x in inputs]
        plain_out = None if out is None else tuple(np.asarray(o) if isinstance(o, Noise) else o for o in out)
        live = mon is not None and mon[0].active
        if live and method == '__call__' and len(inputs) == 2 and ufunc in (np.add, np.subtract):
            noisy = [isinstance(x, Noise) for x in inputs]
            if noisy[0] != noisy[1]:
                if noisy[1]:
                    operand, nz, sign = inputs[0], inputs[1], (1.0 if ufunc is np.add else -1.0)
                    res = mon[0].release(np.asarray(operand), sign * np.asarray(nz), nz.vf[1])
                else:
                    operand, nz = inputs[1], inputs[0]
                    if ufunc is np.add:
                        res = mon[0].release(np.asarray(operand), np.asarray(nz), nz.vf[1])
                    else:  # noise - x  ==  -(x - noise): release of x, then negated
                        res = -mon[0].release(np.asarray(operand), -np.asarray(nz), nz.vf[1])
                if plain_out is not None:
                    np.copyto(plain_out[0], res)
                    return plain_out[0]
                return res
        if live and method == '__call__' and len(inputs) == 2 and ufunc in (np.multiply, np.divide, np.true_divide) \
                and isinstance(inputs[0], Noise) != isinstance(inputs[1], Noise) and plain_out is None:
            nz = inputs[0] if isinstance(inputs[0], Noise) else inputs[1]
            other = inputs[1] if isinstance(inputs[0], Noise) else inputs[0]
            if np.ndim(other) == 0 and (ufunc is np.multiply or isinstance(inputs[0], Noise)):
                c = float(other)
                res = np.asarray(getattr(ufunc, method)(*plain, **kwargs)).view(Noise)
                meta = dict(nz.vf[1])
                meta['scale'] = np.asarray(meta['scale'], dtype=float) * (abs(c) if ufunc is np.multiply else 1.0 / abs(c))
                res.vf = (mon[0], meta)
                return res
        if live:
            mon[0].opaque_uses += 1
        res = getattr(ufunc, method)(*plain, out=plain_out, **kwargs) if plain_out is not None else getattr(ufunc, method)(*plain, **kwargs)
        return res


class Monitor:
    def __init__(self):
        self.active = False
        self.mode = 'record'
        self.events = []
        self.replay = None
        self.k = 0
        self.sel_depth = 0
        self.noise_made = 0
        self.noise_used = set()
        self.opaque_uses = 0
        self.inject = 'sampled'
        self.priv = None
        self.orig = {}
        self.unwrap = []

    # ---- installation -----------------------------------------------------
    def install(self, selection_sites):
        """selection_sites: list of (object, attribute_name) whose callable performs a private selection."""
        self.orig = dict(normal=np.random.normal, laplace=np.random.laplace, choice=np.random.choice)
        np.random.normal = self.normal
        np.random.laplace = self.laplace
        np.random.choice = self.choice
        for obj, name in selection_sites:
            f = getattr(obj, name)
            setattr(obj, name, self._selection_wrapper(f))
            self.unwrap.append((obj, name, f))

    def uninstall(self):
        if self.orig:
            np.random.normal = self.orig['normal']
            np.random.laplace = self.orig['laplace']
            np.random.choice = self.orig['choice']
        for obj, name, f in self.unwrap:
            setattr(obj, name, f)
        self.unwrap = []
        self.orig = {}

    def _selection_wrapper(self, f):
        mon = self

        def wrapped(*a, **k):
            mon.sel_depth += 1
            try:
                return f(*a, **k)
            finally:
                mon.sel_depth -= 1
        wrapped.__name__ = getattr(f, '__name__', 'selection')
        wrapped.__wrapped__ = f
        return wrapped

    # ---- run control --------------------------------------------------------
    def start(self, mode, private_seed, post_seed, replay=None, inject='sampled'):
        self.active = True
        self.mode = mode
        self.events = []
        self.replay = replay
        self.k = 0
        self.sel_depth = 0
        self.noise_made = 0
        self.noise_used = set()
        self.opaque_uses = 0
        self.inject = inject
        self.priv = np.random.RandomState(private_seed % (2 ** 32))
        np.random.seed(post_seed % (2 ** 32))

    def stop(self):
        self.active = False

    # ---- primitives -----------------------------------------------------------
    def _noise(self, kind, loc, scale, size):
        if not self.active:
            return self.orig[kind](loc, scale, size)
        if self.mode == 'record':
            raw = np.asarray((self.priv.normal if kind == 'normal' else self.priv.laplace)(loc, scale, size), dtype=float)
            if self.inject == 'zero_noise':
                raw = np.zeros_like(raw) + loc
            elif self.inject == 'five_sigma':
                sd = np.asarray(scale, dtype=float) * (math.sqrt(2) if kind == 'laplace' else 1.0)
                raw = loc + 5.0 * sd * np.where(raw >= loc, 1.0, -1.0)
        else:
            raw = np.zeros(size if size is not None else ())
        arr = np.asarray(raw, dtype=float).reshape(np.shape(raw)).view(Noise)
        self.noise_made += 1
        arr.vf = (self, dict(kind=kind, scale=scale, loc=loc, id=self.noise_made))
        return arr

    def normal(self, loc=0.0, scale=1.0, size=None):
        return self._noise('normal', loc, scale, size)

    def laplace(self, loc=0.0, scale=1.0, size=None):
        return self._noise('laplace', loc, scale, size)

    def release(self, operand, noise, meta):
        operand = np.asarray(operand, dtype=float)
        noise_arr = np.asarray(noise, dtype=float)
        self.noise_used.add(meta['id'])
        scale = meta['scale']
        ev = dict(type='release', kind=meta['kind'], scale=(float(scale) if np.ndim(scale) == 0 else np.asarray(scale, dtype=float).copy()),
                  x=np.broadcast_to(operand, np.broadcast(operand, noise_arr).shape).copy(), n=int(np.broadcast(operand, noise_arr).size),
                  noise_n=int(noise_arr.size))      # noise_n < n: one draw was broadcast over several released cells
        if self.mode == 'record':
            y = operand + noise_arr
        else:
            if self.k >= len(self.replay):
                raise ReplayMismatch('run on the neighbour performs an extra release (event %d, %s of size %d)' % (self.k, ev['kind'], ev['n']))
            r = self.replay[self.k]
            if r['type'] != 'release' or r['n'] != ev['n'] or r['kind'] != ev['kind']:
                raise ReplayMismatch('event %d: recorded %s, the neighbour run performs a %s release of size %d' % (
                    self.k, _skel(r), ev['kind'], ev['n']))
            y = r['y'].copy().reshape(ev['x'].shape)
        ev['y'] = np.array(y, dtype=float)
        self.events.append(ev)
        self.k += 1
        return np.array(y, dtype=float)

    def choice(self, a, size=None, replace=True, p=None):
        if not self.active or self.sel_depth == 0 or p is None or size is not None:
            return self.orig['choice'](a, size, replace, p)
        p = np.asarray(p, dtype=float)
        ev = dict(type='select', p=p.copy(), n=int(p.size))
        if self.mode == 'record':
            ok = np.isfinite(p).all() and abs(p.sum() - 1) < 1e-6 and (p >= 0).all()
            if not ok:
                idx = int(self.orig['choice'](a, size, replace, p))  # let numpy raise exactly as it would
            elif self.inject == 'least_likely':
                pos = np.where(p > 0)[0]
                idx = int(pos[np.argmin(p[pos])])
                self.priv.rand()
            elif self.inject == 'uniform_selection':
                pos = np.where(p > 0)[0]
                idx = int(pos[int(self.priv.randint(len(pos)))])
            else:
                idx = int(self.priv.choice(p.size, p=p))
        else:
            if self.k >= len(self.replay):
                raise ReplayMismatch('run on the neighbour performs an extra selection (event %d over %d candidates)' % (self.k, ev['n']))
            r = self.replay[self.k]
            if r['type'] != 'select' or r['n'] != ev['n']:
                raise ReplayMismatch('event %d: recorded %s, the neighbour run selects among %d candidates' % (self.k, _skel(r), ev['n']))
            idx = r['idx']
        ev['idx'] = idx
        self.events.append(ev)
        self.k += 1
        return idx if np.ndim(a) == 0 else np.asarray(a)[idx]

    def unreleased(self):
        return self.noise_made - len(self.noise_used)


def _skel(e):
    if e['type'] == 'release':
        sc = e['scale']
        return ('release', e['kind'], e['n'], float(sc) if np.ndim(sc) == 0 else tuple(np.round(np.asarray(sc, dtype=float), 12).tolist()))
    return ('select', e['n'], e['idx'])


def skeleton(events):
    return [_skel(e) for e in events]


def charges(ev1, ev2):
    """Per-event privacy cost of this pair of executions.  Returns a list of dicts with
    rho (zCDP) and eps (pure DP) charges."""
    out = []
    for a, b in zip(ev1, ev2):
        if a['type'] == 'release':
            d = a['x'] - b['x']
            s1, s2 = np.asarray(a['scale'], dtype=float), np.asarray(b['scale'], dtype=float)
            s = np.minimum(s1, s2)
            nn = min(a.get('noise_n', a['n']), b.get('noise_n', b['n']))
            if nn < a['n']:
                # the released cells share noise draws: every contrast between cells sharing a draw is released exactly.
                # One draw for the whole vector: finite cost only if the statistic moves by the same amount in every cell.
                dd = np.asarray(d, dtype=float).reshape(-1)
                same = dd.size == 0 or bool(np.all(dd == dd[0]))
                if nn == 1 and same:
                    v = float(dd[0]) if dd.size else 0.0
                    sm = float(np.min(s))
                    if a['kind'] == 'normal':
                        out.append(dict(type='gaussian', rho=v * v / (2 * sm * sm), eps=math.inf if v != 0 else 0.0, l2=abs(v), scale=sm, shared_noise=True))
                    else:
                        out.append(dict(type='laplace', rho=(v / sm) ** 2 / 2.0, eps=abs(v) / sm, l1=abs(v), scale=sm, shared_noise=True))
                elif nn == 1:
                    out.append(dict(type='gaussian' if a['kind'] == 'normal' else 'laplace', rho=math.inf, eps=math.inf, scale=float(np.min(s)), shared_noise=True))
                else:
                    out.append(dict(type='gaussian' if a['kind'] == 'normal' else 'laplace', rho=math.nan, eps=math.nan, scale=float(np.min(s)), shared_noise=True, unattributable=True))
                continue
            if a['kind'] == 'normal':
                out.append(dict(type='gaussian', rho=float(np.sum((d / s) ** 2)) / 2.0, eps=math.inf if np.any(d != 0) else 0.0,
                                l2=float(np.sqrt(np.sum(d * d))), scale=float(np.min(s))))
            else:
                e = float(np.sum(np.abs(d) / s))
                out.append(dict(type='laplace', rho=e * e / 2.0, eps=e, l1=float(np.abs(d).sum()), scale=float(np.min(s))))
        else:
            p, q = a['p'], b['p']
            both_tiny = (p < 1e-290) & (q < 1e-290)
            with np.errstate(divide='ignore', invalid='ignore'):
                l = np.log(p) - np.log(q)
            l = l[~both_tiny]
            if l.size == 0:
                rng_, mx = 0.0, 0.0
            elif not np.isfinite(l).all():
                rng_, mx = math.inf, math.inf
            else:
                rng_, mx = float(l.max() - l.min()), float(np.abs(l).max())
            out.append(dict(type='select', rho=rng_ * rng_ / 8.0, eps=mx, range=rng_, n=int(p.size)))
    return out
