"""One shard of a check, run as a subprocess:  python -m vf.worker <json-args>"""
import importlib
import json
import os
import pickle
import sys
import time
from collections import Counter

from . import env
from .core import Ctx, CaseTimeout, watchdog, tb_info, digest, merge_stats, plain, rng_for

TOOL_ID = 4


class Coverage:
    """Counts entries into repository functions with sys.monitoring (PEP 669)."""

    def __init__(self, roots):
        self.roots = tuple(roots)
        self.counts = Counter()
        self.on = False

    def start(self):
        mon = getattr(sys, 'monitoring', None)
        if mon is None:
            return
        try:
            mon.use_tool_id(TOOL_ID, 'vf-anchors')
        except Exception:
            return
        roots, counts, DISABLE = self.roots, self.counts, mon.DISABLE

        def on_start(code, offset):
            if code.co_filename.startswith(roots):
                counts[code] += 1
                return None
            return DISABLE

        mon.register_callback(TOOL_ID, mon.events.PY_START, on_start)
        mon.set_events(TOOL_ID, mon.events.PY_START)
        self.on = True

    def stop(self):
        if self.on:
            mon = sys.monitoring
            mon.set_events(TOOL_ID, 0)
            mon.register_callback(TOOL_ID, mon.events.PY_START, None)
            mon.free_tool_id(TOOL_ID)
            self.on = False

    def by_qualname(self):
        out = Counter()
        for code, n in self.counts.items():
            out[getattr(code, 'co_qualname', code.co_name)] += n
        return out


def load_prop(pid):
    return importlib.import_module('vf.props.' + pid.lower())


def match_finding(prop, case, failure, open_findings):
    for fid in open_findings:
        pred = getattr(prop, 'FINDINGS', {}).get(fid)
        if pred is None:
            continue
        try:
            if pred(case, failure):
                return fid
        except Exception:
            continue
    return None


def run_one(prop, case, tier, case_timeout):
    """Returns (ctx, status) with status in ok / timeout / harness_error."""
    ctx = Ctx(prop.ID, tier)
    try:
        with watchdog(case_timeout):
            prop.run_case(case, ctx)
    except CaseTimeout as e:
        return ctx, 'timeout', str(e)
    except BaseException as e:  # noqa
        if isinstance(e, (KeyboardInterrupt, SystemExit)):
            raise
        text, touches = tb_info(e, env.REPO)
        if touches:
            ctx.fail('exception', text, exc_type=type(e).__name__)
        else:
            return ctx, 'harness_error', text
    return ctx, 'ok', ''


def main():
    a = json.loads(sys.argv[1])
    pid, tier, seed = a['prop'], a['tier'], a['seed']
    shard, nshards = a['shard'], a['nshards']
    env.setup()
    prop = load_prop(pid)
    plan = prop.PLAN[tier]
    if a.get('cases') is not None:
        plan = dict(plan, cases=a['cases'])
    budget = a.get('budget_s') or plan['budget_s']
    case_timeout = plan.get('case_timeout', 120)
    open_findings = a.get('open_findings', [])
    replay_dir = a['replay_dir']

    cov = Coverage([os.path.join(env.REPO, 'src') + os.sep, os.path.join(env.REPO, 'mechanisms') + os.sep])
    t0 = time.time()
    if hasattr(prop, 'setup'):
        prop.setup(tier)
    cov.start()

    out = dict(shard=shard, evaluations=0, sigs=[], monitors=Counter(), stats={}, tags=Counter(),
               violations=[], known_hits=Counter(), witness={}, timeouts=0, harness_errors=[],
               samples=[], skipped_for_budget=0, trivial=0, units=0, exhaustive_units=0)
    sigs = set()
    count_units = bool(getattr(prop, 'COUNT_UNITS', False))

    keys = []
    fixed = prop.fixed_cases(tier) if hasattr(prop, 'fixed_cases') else []
    for i, (name, _c) in enumerate(fixed):
        if i % nshards == shard:
            keys.append(('fixed', i))
    for idx in range(shard, plan['cases'], nshards):
        keys.append(('gen', idx))

    for kind, idx in keys:
        if kind == 'gen' and time.time() - t0 > budget:
            out['skipped_for_budget'] += 1
            continue
        try:
            if kind == 'fixed':
                name, case = fixed[idx]
            else:
                name = 'g%d' % idx
                case = prop.gen_case(rng_for(seed, pid, idx), tier, idx)
        except Exception as e:
            text, _ = tb_info(e, env.REPO)
            out['harness_errors'].append({'case': str(idx), 'where': 'gen', 'tb': text})
            continue
        ctx, status, msg = run_one(prop, case, tier, case_timeout)
        if status == 'timeout':
            out['timeouts'] += 1
            continue
        if status == 'harness_error':
            out['harness_errors'].append({'case': name, 'where': 'run', 'tb': msg})
            path = os.path.join(replay_dir, '%s-%s-s%d-%s-harness.pkl' % (pid, tier, seed, name))
            try:
                with open(path, 'wb') as f:
                    pickle.dump({'property': pid, 'case': case, 'harness_error': msg}, f)
            except Exception:
                pass
            continue
        out['evaluations'] += 1
        out['monitors'].update(ctx.monitors)
        out['tags'].update(ctx.tags)
        merge_stats(out['stats'], ctx.stats)
        if count_units:
            out['units'] += ctx.units
            out['exhaustive_units'] += ctx.exhaustive_units
            sigs.update(ctx.unit_sigs)
        elif ctx.trivial:
            out['trivial'] += 1
        else:
            sigs.add(digest(case))
        if len(out['samples']) < 2 and kind == 'gen':
            try:
                out['samples'].append(plain(prop.describe(case)))
            except Exception:
                pass
        unmatched = []
        for f in ctx.failures:
            fid = match_finding(prop, case, f, open_findings)
            if fid:
                out['known_hits'][fid] += 1
            else:
                unmatched.append(f)
        if kind == 'fixed' and name.startswith('witness:'):
            fid = name.split(':')[1]
            out['witness'][fid] = {'failed': bool(ctx.failures),
                                   'kinds': sorted({f['kind'] for f in ctx.failures}),
                                   'detail': ctx.failures[0]['detail'][:300] if ctx.failures else ''}
        if unmatched:
            path = os.path.join(replay_dir, '%s-%s-s%d-%s.pkl' % (pid, tier, seed, name.replace(':', '_')))
            with open(path, 'wb') as f:
                pickle.dump({'property': pid, 'name': name, 'seed': seed, 'tier': tier, 'case': case,
                             'failures': unmatched, 'repo': env.REPO}, f)
            try:
                with open(path[:-4] + '.json', 'w') as f:
                    json.dump({'property': pid, 'name': name, 'seed': seed, 'tier': tier,
                               'failures': unmatched, 'case': plain(prop.describe(case))}, f, indent=1)
            except Exception:
                pass
            out['violations'].append({'name': name, 'replay': path, 'kinds': [f['kind'] for f in unmatched],
                                      'detail': (unmatched[0]['detail'][-600:] if unmatched[0]['kind'] == 'exception' else unmatched[0]['detail'][:600])})
    cov.stop()
    out['sigs'] = sorted(sigs)
    out['anchors'] = {q: n for q, n in cov.by_qualname().items()}
    out['coverage_on'] = bool(cov.counts) or cov.on
    out['wall_s'] = time.time() - t0
    out['monitors'] = dict(out['monitors'])
    out['tags'] = dict(out['tags'])
    out['known_hits'] = dict(out['known_hits'])
    if hasattr(prop, 'shard_summary'):
        out['extra'] = plain(prop.shard_summary())
    with open(a['out'], 'w') as f:
        json.dump(out, f)


if __name__ == '__main__':
    main()
