"""Environment set-up shared by every check.

* puts the repository under test (``$VP_REPO`` or /repo) first on ``sys.path`` so the
  working tree is what gets imported (the editable install in /venv points at
  /repo/src as well, but an explicit entry also lets the self-validation script aim the
  checks at a scratch copy);
* provides the harness-side adapters for third-party packages the sandbox lacks
  (DESIGN.md section 0.2);
* loads the mechanism scripts whose file names are not importable identifiers.
"""
import importlib.util
import os
import sys
import warnings

VERIF = os.path.dirname(os.path.dirname(os.path.abspath(__file__)))
REPO = os.path.abspath(os.environ.get('VP_REPO', '/repo'))
STUBS = os.path.join(VERIF, 'vf', 'stubs')
DEPS = os.path.join(VERIF, '.deps')

_done = False


def setup(jax_stub=False):
    """Idempotent.  Must run before anything from the repository is imported."""
    global _done
    os.environ.setdefault('MPLBACKEND', 'Agg')
    warnings.filterwarnings('ignore')
    if not _done:
        # the sandbox lacks autodp / hdmm: stand-ins go last so a real install would win
        sys.path.append(os.path.join(STUBS, 'pkgs'))
        for p in (DEPS, REPO, os.path.join(REPO, 'src')):
            if p in sys.path:
                sys.path.remove(p)
            sys.path.insert(0, p)
        _done = True
    if jax_stub:
        p = os.path.join(STUBS, 'jaxstub')
        if p not in sys.path:
            sys.path.append(p)


def assert_repo_origin(module):
    """Refuse to run if an imported repository module does not come from REPO."""
    f = os.path.abspath(getattr(module, '__file__', '') or '')
    if not f.startswith(REPO + os.sep):
        raise RuntimeError('module %s imported from %s, not from %s' % (module.__name__, f, REPO))


def install_sparse_T_setter():
    """scipy >= 1.14 made ``.T`` of sparse matrices a read-only property; adaptive_grid.py
    assigns to it (``Q.T = csr_matrix(Q.T)``, a caching trick).  Restore assignability so
    the mechanism can run at all in this sandbox.  Semantics are unchanged: reading ``.T``
    returns the assigned (equal) matrix, or the ordinary transpose if none was assigned."""
    import scipy.sparse as sp
    names = ['csr_matrix', 'csc_matrix', 'coo_matrix', 'dia_matrix', 'bsr_matrix', 'lil_matrix',
             'dok_matrix', 'csr_array', 'csc_array', 'coo_array', 'dia_array', 'bsr_array',
             'lil_array', 'dok_array']
    for name in names:
        cls = getattr(sp, name, None)
        if cls is None or getattr(cls, '_vf_T', False):
            continue

        def _get(self):
            c = self.__dict__.get('_vf_cached_T')
            return c if c is not None else self.transpose()

        def _set(self, v):
            self.__dict__['_vf_cached_T'] = v

        try:
            cls.T = property(_get, _set)
            cls._vf_T = True
        except Exception:
            pass


_MECH_FILES = {
    'mechanism': 'mechanism.py',
    'cdp2adp': 'cdp2adp.py',
    'mst': 'mst.py',
    'aim': 'aim.py',
    'mwem_pgm': 'mwem+pgm.py',
    'adaptive_grid': 'adaptive_grid.py',
}
_mech_cache = {}


def load_mechanism(name):
    """Import REPO/mechanisms/<file> (some file names contain '+')."""
    setup()
    if name in _mech_cache:
        return _mech_cache[name]
    fname = _MECH_FILES[name]
    path = os.path.join(REPO, 'mechanisms', fname)
    if name in ('mechanism', 'cdp2adp'):
        mod = importlib.import_module('mechanisms.' + name)
        assert_repo_origin(mod)
    else:
        spec = importlib.util.spec_from_file_location('vf_mech_' + name, path)
        mod = importlib.util.module_from_spec(spec)
        sys.modules['vf_mech_' + name] = mod
        spec.loader.exec_module(mod)
    _mech_cache[name] = mod
    return mod


def repo_head():
    import subprocess
    try:
        h = subprocess.run(['git', '-C', REPO, 'rev-parse', '--short', 'HEAD'], capture_output=True,
                           text=True, timeout=20).stdout.strip()
        d = subprocess.run(['git', '-C', REPO, 'status', '--porcelain', '--untracked-files=no'],
                           capture_output=True, text=True, timeout=20).stdout.strip()
        return h + ('+dirty' if d else '')
    except Exception:
        return 'unknown'
