"""./check <ID> [--tier quick|thorough] [--seed N] [--replay path]

Spawns shard subprocesses, aggregates what their monitors observed, classifies failures
against /verif/known_findings.json, writes /verif/evidence/<ID>.json and prints the verdict.
Exit 0 = held on everything explored, 1 = violation (VIOLATION line), 2 = inconclusive.
"""
import argparse
import json
import os
import pickle
import subprocess
import sys
import tempfile
import time
from collections import Counter

from . import env
from .core import merge_stats, plain, Ctx

VERIF = env.VERIF


def load_findings(pid):
    path = os.path.join(VERIF, 'known_findings.json')
    if not os.path.exists(path):
        return []
    with open(path) as f:
        doc = json.load(f)
    return [e for e in doc.get('findings', []) if e.get('property') == pid]


def do_replay(pid, path):
    env.setup()
    from .worker import load_prop, run_one, match_finding
    prop = load_prop(pid)
    with open(path, 'rb') as f:
        doc = pickle.load(f)
    if hasattr(prop, 'setup'):
        prop.setup(doc.get('tier', 'quick'))
    ctx, status, msg = run_one(prop, doc['case'], doc.get('tier', 'quick'), 3600)
    print('replay of %s (%s): status=%s' % (path, doc.get('name'), status))
    if status != 'ok':
        print(msg)
        return 2
    open_f = [e['id'] for e in load_findings(pid) if e.get('status') == 'open']
    bad = 0
    for f in ctx.failures:
        fid = match_finding(prop, doc['case'], f, open_f)
        print(('  KNOWN(%s) ' % fid if fid else '  FAIL ') + f['kind'] + ': ' + f['detail'][:1500])
        if not fid:
            bad += 1
    print('monitors:', dict(ctx.monitors))
    if bad:
        print('VIOLATION property=%s replay=%s' % (pid, path))
        return 1
    print('no violation reproduced')
    return 0


def main(argv=None):
    ap = argparse.ArgumentParser()
    ap.add_argument('prop')
    ap.add_argument('--tier', default=os.environ.get('VERIF_TIER', 'quick'), choices=['quick', 'thorough'])
    ap.add_argument('--seed', type=int, default=int(os.environ.get('VERIF_SEED', '0') or 0))
    ap.add_argument('--replay')
    ap.add_argument('--cases', type=int)
    ap.add_argument('--budget', type=float)
    ap.add_argument('--shards', type=int)
    ap.add_argument('--no-evidence', action='store_true')
    args = ap.parse_args(argv)
    pid = args.prop.upper()
    if args.replay:
        return do_replay(pid, args.replay)

    t0 = time.time()
    env.setup()
    from .worker import load_prop
    prop = load_prop(pid)
    plan = dict(prop.PLAN[args.tier])
    if args.cases is not None:
        plan['cases'] = args.cases
    if args.budget is not None:
        plan['budget_s'] = args.budget
    ncpu = os.cpu_count() or 4
    nshards = args.shards or max(1, min(plan.get('shards', 16), ncpu, max(1, plan['cases'])))
    findings = load_findings(pid)
    open_ids = [e['id'] for e in findings if e.get('status') == 'open']
    replay_dir = os.path.join(VERIF, 'replays')
    os.makedirs(replay_dir, exist_ok=True)
    os.makedirs(os.path.join(VERIF, 'evidence'), exist_ok=True)

    tmp = tempfile.mkdtemp(prefix='vf-%s-' % pid, dir=os.path.join(VERIF, '.work') if os.path.isdir(
        os.path.join(VERIF, '.work')) else None)
    procs = []
    shard_timeout = plan['budget_s'] * 3 + plan.get('case_timeout', 120) + 120
    for s in range(nshards):
        out = os.path.join(tmp, 'shard%d.json' % s)
        a = dict(prop=pid, tier=args.tier, seed=args.seed, shard=s, nshards=nshards, out=out,
                 open_findings=open_ids, replay_dir=replay_dir, cases=plan['cases'], budget_s=plan['budget_s'])
        e = dict(os.environ)
        e['PYTHONPATH'] = VERIF + os.pathsep + e.get('PYTHONPATH', '')
        # set iteration order inside the repository depends on the hash seed; pinned per shard
        e['PYTHONHASHSEED'] = str(0 if args.tier == 'quick' else s % 4)
        e['OMP_NUM_THREADS'] = e['OPENBLAS_NUM_THREADS'] = e['MKL_NUM_THREADS'] = '1'
        e['MPLBACKEND'] = 'Agg'
        log = open(os.path.join(tmp, 'shard%d.log' % s), 'w')
        p = subprocess.Popen([sys.executable, '-m', 'vf.worker', json.dumps(a)], cwd=VERIF, env=e,
                             stdout=log, stderr=subprocess.STDOUT)
        procs.append((s, p, out, log))

    results, crashed = [], []
    deadline = time.time() + shard_timeout
    for s, p, out, log in procs:
        try:
            rc = p.wait(timeout=max(1, deadline - time.time()))
        except subprocess.TimeoutExpired:
            p.kill()
            p.wait()
            rc = 'watchdog'
        log.close()
        if rc == 0 and os.path.exists(out):
            with open(out) as f:
                results.append(json.load(f))
        else:
            tail = ''
            try:
                with open(log.name) as f:
                    tail = f.read()[-1500:]
            except Exception:
                pass
            crashed.append({'shard': s, 'rc': rc, 'log_tail': tail})

    # ---- aggregate ------------------------------------------------------
    ev = 0
    sigs = set()
    monitors, tags, anchors, known_hits = Counter(), Counter(), Counter(), Counter()
    stats, witness = {}, {}
    violations, harness_errors, samples = [], [], []
    timeouts = skipped = trivial = 0
    units = exh_units = 0
    extras = []
    for r in results:
        ev += r['evaluations']
        units += r.get('units', 0)
        exh_units += r.get('exhaustive_units', 0)
        sigs.update(r['sigs'])
        monitors.update(r['monitors'])
        tags.update(r['tags'])
        anchors.update(r.get('anchors', {}))
        known_hits.update(r['known_hits'])
        merge_stats(stats, r['stats'])
        witness.update(r['witness'])
        violations.extend(r['violations'])
        harness_errors.extend(r['harness_errors'])
        samples.extend(r['samples'])
        timeouts += r['timeouts']
        skipped += r['skipped_for_budget']
        trivial += r['trivial']
        if 'extra' in r:
            extras.append(r['extra'])

    lines = []
    for e in findings:
        if e.get('status') != 'open':
            continue
        w = witness.get(e['id'])
        if (w and w['failed']) or known_hits.get(e['id']):
            lines.append('KNOWN-FINDING: property=%s %s %s' % (pid, e['id'], e['what']))
        elif w is not None:
            lines.append('note: witness of open finding %s no longer fails on this tree' % e['id'])

    inconclusive = []
    if crashed:
        inconclusive.append('%d shard(s) crashed or hit the watchdog' % len(crashed))
    if ev < plan.get('min_cases', 1):
        inconclusive.append('only %d cases evaluated (floor %d)' % (ev, plan.get('min_cases', 1)))
    for m in getattr(prop, 'DECIDING', []):
        if monitors.get(m, 0) == 0:
            inconclusive.append('deciding monitor %r was never evaluated' % m)
    anchor_counts = {}
    for q in getattr(prop, 'ANCHORS', []):
        anchor_counts[q] = anchors.get(q, 0)
        if anchor_counts[q] == 0:
            inconclusive.append('anchored function %s was never entered' % q)
    if len(harness_errors) > max(2, 0.02 * max(ev, 1)):
        inconclusive.append('%d harness errors' % len(harness_errors))
    if timeouts > max(2, 0.05 * max(ev, 1)):
        inconclusive.append('%d cases hit the per-case watchdog' % timeouts)
    if hasattr(prop, 'inconclusive_reasons'):
        inconclusive.extend(prop.inconclusive_reasons(dict(monitors), dict(tags), stats, args.tier))

    wall = time.time() - t0
    verdict = 'violated' if violations else ('inconclusive' if inconclusive else 'held')
    count_units = bool(getattr(prop, 'COUNT_UNITS', False))
    coverage = {
        'evaluations': int(units if count_units else ev),
        'distinct_nontrivial': int(len(sigs) + (exh_units if count_units else 0)),
        'batches': int(ev),
        'rule': prop.RULE,
        'samples': samples[:4] if samples else [{'note': 'no generated case finished'}],
        'monitor_evaluations': dict(monitors),
        'workload_classes': dict(tags),
        'observed': {k: {'min': v[0], 'max': v[1], 'n': v[2]} for k, v in sorted(stats.items())},
        'anchored_function_calls': anchor_counts,
        'repo_function_calls_total': int(sum(anchors.values())),
        'distinct_repo_functions_entered': int(len(anchors)),
        'trivial_cases': int(trivial),
        'cases_planned': int(plan['cases']),
        'skipped_for_budget': int(skipped),
        'case_timeouts': int(timeouts),
        'harness_errors': len(harness_errors),
        'shards': nshards,
        'known_finding_hits': dict(known_hits),
        'witnesses': witness,
        'verdict': verdict,
        'inconclusive_reasons': inconclusive,
        'repo_head': env.repo_head(),
    }
    if getattr(prop, 'EXHAUSTIVE', None) and not inconclusive and not skipped:
        ex = prop.EXHAUSTIVE(args.tier, dict(tags))
        if ex:
            coverage['exhaustive'] = True
            coverage['exhaustive_scope'] = ex
    if extras and hasattr(prop, 'merge_extra'):
        coverage['extra'] = plain(prop.merge_extra(extras))
    evidence = {
        'property_id': pid,
        'tier': args.tier,
        'seed': int(args.seed),
        'level': 'exploration',
        'coverage': coverage,
        'assumptions': list(getattr(prop, 'ASSUMPTIONS', [])),
        'wall_s': round(wall, 2),
        'violations': len(violations),
    }
    if not args.no_evidence:
        with open(os.path.join(VERIF, 'evidence', '%s.json' % pid), 'w') as f:
            json.dump(evidence, f, indent=1, sort_keys=False)

    # ---- report ---------------------------------------------------------
    print('%s %s seed=%d: %d cases (%d distinct non-trivial) in %.1fs on %d shards; monitors=%s'
          % (pid, args.tier, args.seed, coverage['evaluations'], coverage['distinct_nontrivial'], wall, nshards, dict(monitors)))
    for ln in lines:
        print(ln)
    for h in harness_errors[:3]:
        print('harness error in case %s:\n%s' % (h['case'], h['tb'][-1200:]))
    for c in crashed[:3]:
        print('shard %s failed rc=%s\n%s' % (c['shard'], c['rc'], c['log_tail']))
    if violations:
        for v in violations[:10]:
            print('  %s [%s] %s' % (v['name'], ','.join(v['kinds']), v['detail'].replace('\n', ' | ')[:400]))
        for v in violations[:25]:
            print('VIOLATION property=%s replay=%s' % (pid, v['replay']))
        rc = 1
    elif inconclusive:
        print('INCONCLUSIVE property=%s: %s' % (pid, '; '.join(inconclusive)))
        rc = 2
    else:
        print('HELD property=%s on everything explored' % pid)
        rc = 0
    try:
        import shutil
        shutil.rmtree(tmp, ignore_errors=True)
    except Exception:
        pass
    return rc


if __name__ == '__main__':
    sys.exit(main())
