#!/venv/bin/python
"""Regenerate /verif/MANIFEST.json from the property modules (vf/props/cXX.py)."""
import importlib
import json
import os
import sys

HERE = os.path.dirname(os.path.abspath(__file__))
VERIF = os.path.dirname(HERE)
sys.path.insert(0, VERIF)

ALL = ['C%02d' % i for i in range(1, 21)]
NOT_BUILT_REASON = 'check not built yet in this session (planned: see DESIGN.md section 2)'


def main():
    checks, na = [], []
    for pid in ALL:
        path = os.path.join(VERIF, 'vf', 'props', pid.lower() + '.py')
        if not os.path.exists(path):
            na.append({'property_id': pid, 'reason': NOT_BUILT_REASON})
            continue
        mod = importlib.import_module('vf.props.' + pid.lower())
        if getattr(mod, 'NOT_APPLICABLE', None):
            na.append({'property_id': pid, 'reason': mod.NOT_APPLICABLE})
            continue
        checks.append({
            'property_id': pid,
            'quick_cmd': './check %s --tier quick' % pid,
            'thorough_cmd': './check %s --tier thorough' % pid,
            'evidence_file': 'evidence/%s.json' % pid,
            'replay_cmd_template': './check %s --replay {path}' % pid,
            'engine': 'vf',
            'level_claimed': {
                'category': 'exploration',
                'text': mod.LEVEL_TEXT,
                'design_ref': 'DESIGN.md section 2, ' + pid,
            },
            'level_note': mod.LEVEL_NOTE,
            'technique': mod.TECHNIQUE,
        })
    doc = {
        'version': 1,
        'setup_cmd': './setup.sh',
        'hooks': {
            'guard': 'PRIVATE_PGM_VERIF',
            'enable': 'no source hooks: every monitor is installed from the harness by patching class / module '
                      'attributes of the imported repository (and numpy.random) before the objects under test are '
                      'created; checks import /repo\'s working tree directly (pure Python, nothing to build)',
            'baseline_off_cmd': 'cd /repo && /venv/bin/python -m pytest -ra -q -p no:cacheprovider --timeout=900 '
                                '--continue-on-collection-errors',
            'source_commits': [],
            'add_only': True,
        },
        'engines': [{
            'name': 'vf',
            'path': 'vf/',
            'serves_properties': [c['property_id'] for c in checks],
            'kind_free_text': 'runtime monitoring: sharded workload drivers + monitors (post-conditions on patched '
                               'repository functions, reference-model comparison, paired-execution privacy accountant) '
                               'with three-valued verdicts; ./check <ID> --tier quick|thorough',
        }],
        'checks': checks,
        'notes': 'Exit 0 held / 1 violation (VIOLATION line + replay pickle) / 2 inconclusive. Known findings: '
                 'known_findings.json. Repository defects repaired as fix: commits are listed there as fixed. '
                 'Self-validation mutants: tools/mutants.py, seeded/.',
        'not_applicable': na,
    }
    with open(os.path.join(VERIF, 'MANIFEST.json'), 'w') as f:
        json.dump(doc, f, indent=1)
    print('MANIFEST.json: %d checks, %d not claimed' % (len(checks), len(na)))


if __name__ == '__main__':
    main()
