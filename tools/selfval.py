#!/venv/bin/python
"""Self-validation: apply small realistic mutations to a scratch copy of the repository and
confirm that (a) the repository's own tests still pass and (b) the owning check fires.

usage: tools/selfval.py [PROP ...] [--only name] [--tier quick] [--keep] [--skip-tests]

The scratch copy lives under /tmp and is removed after each mutant.  Nothing is written to
/repo.  Mutants are (file, old, new) textual replacements listed in tools/mutants.py, plus the
patches kept under seeded/<id>/patch.diff.
"""
import argparse
import json
import os
import shutil
import subprocess
import sys
import tempfile
import time

HERE = os.path.dirname(os.path.abspath(__file__))
VERIF = os.path.dirname(HERE)
sys.path.insert(0, HERE)
import mutants as M  # noqa

PYTEST = ['/venv/bin/python', '-m', 'pytest', '-q', '-p', 'no:cacheprovider', '--timeout=900', '-x', '-q']


def make_scratch():
    d = tempfile.mkdtemp(prefix='ppgm-mut-')
    subprocess.run(['git', '-C', '/repo', 'worktree', 'add', '--detach', '-f', d + '/r', 'HEAD'], check=True,
                   capture_output=True)
    # carry over uncommitted working-tree edits of /repo, if any
    diff = subprocess.run(['git', '-C', '/repo', 'diff', 'HEAD'], capture_output=True, text=True).stdout
    if diff.strip():
        subprocess.run(['git', '-C', d + '/r', 'apply'], input=diff, text=True, check=True)
    return d, d + '/r'


def drop_scratch(d):
    subprocess.run(['git', '-C', '/repo', 'worktree', 'remove', '--force', d + '/r'], capture_output=True)
    shutil.rmtree(d, ignore_errors=True)
    subprocess.run(['git', '-C', '/repo', 'worktree', 'prune'], capture_output=True)


def apply_mutant(root, mut):
    if 'patch' in mut:
        r = subprocess.run(['git', '-C', root, 'apply', mut['patch']], capture_output=True, text=True)
        if r.returncode != 0:
            raise RuntimeError('patch does not apply: ' + r.stderr)
        return
    for f, old, new in mut['edits']:
        p = os.path.join(root, f)
        s = open(p).read()
        if s.count(old) != 1:
            raise RuntimeError('%s: pattern occurs %d times in %s' % (mut['name'], s.count(old), f))
        open(p, 'w').write(s.replace(old, new))


def run_tests(root):
    env = dict(os.environ, PYTHONPATH=root + '/src:' + root)
    r = subprocess.run(PYTEST, cwd=root, env=env, capture_output=True, text=True, timeout=1800)
    tail = (r.stdout.strip().splitlines() or [''])[-1]
    return r.returncode == 0, tail


def run_check(root, prop, tier, seed):
    env = dict(os.environ, VP_REPO=root)
    t = time.time()
    r = subprocess.run([os.path.join(VERIF, 'check'), prop, '--tier', tier, '--seed', str(seed), '--no-evidence'],
                       cwd=VERIF, env=env, capture_output=True, text=True, timeout=7200)
    viol = [l for l in r.stdout.splitlines() if l.startswith('VIOLATION')]
    first = [l for l in r.stdout.splitlines() if l.startswith('  ')][:1]
    return r.returncode, len(viol), (first[0][:200] if first else r.stdout.strip().splitlines()[-1][:200]), time.time() - t


def main():
    ap = argparse.ArgumentParser()
    ap.add_argument('props', nargs='*')
    ap.add_argument('--only')
    ap.add_argument('--tier', default='quick')
    ap.add_argument('--seed', type=int, default=0)
    ap.add_argument('--skip-tests', action='store_true')
    ap.add_argument('--all-checks', action='store_true', help='run every check against each mutant (cross-talk)')
    ap.add_argument('--json')
    args = ap.parse_args()
    muts = M.all_mutants()
    if args.props:
        want = {p.upper() for p in args.props}
        muts = [m for m in muts if m['prop'] in want]
    if args.only:
        muts = [m for m in muts if args.only in m['name']]
    rows = []
    for mut in muts:
        d, root = make_scratch()
        try:
            try:
                apply_mutant(root, mut)
            except RuntimeError as e:
                print('%-4s %-34s APPLY-FAILED %s' % (mut['prop'], mut['name'], e))
                rows.append(dict(prop=mut['prop'], name=mut['name'], status='apply-failed'))
                continue
            tests_ok, tail = (None, 'skipped') if args.skip_tests else run_tests(root)
            props = [mut['prop']] if not args.all_checks else M.ALL_PROPS
            for p in props:
                rc, nviol, first, dt = run_check(root, p, args.tier, args.seed)
                status = {0: 'MISSED', 1: 'caught', 2: 'inconclusive'}.get(rc, 'rc=%s' % rc)
                print('%-4s %-34s tests:%-5s check %s: %-12s (%d VIOLATION, %.0fs) %s' % (
                    mut['prop'], mut['name'], {True: 'pass', False: 'FAIL', None: '-'}[tests_ok], p, status, nviol, dt,
                    first if rc else ''))
                sys.stdout.flush()
                rows.append(dict(prop=mut['prop'], name=mut['name'], tests_pass=tests_ok, check=p, rc=rc,
                                 violations=nviol, first=first, wall_s=round(dt, 1)))
        finally:
            drop_scratch(d)
    if args.json:
        with open(args.json, 'w') as f:
            json.dump(rows, f, indent=1)
    missed = [r for r in rows if r.get('rc') == 0 and r.get('check') == r.get('prop')]
    print('mutants: %d, missed by owning check: %d' % (len(muts), len(missed)))
    return 0


if __name__ == '__main__':
    sys.exit(main())
