#!/venv/bin/python
"""Confirm and file a property-breaking change written by an independent sub-agent.

usage: tools/ingest_seed.py <PROP> <src_dir_with patch.diff demo.py notes.md> <name> [--needs "..."] [--tier quick]

Independently of what the sub-agent reported, this script (in a fresh scratch worktree of /repo HEAD
under /tmp, removed afterwards):
  1. runs demo.py on the unmodified source        -> must exit 0
  2. applies patch.diff, runs the repository suite -> must pass
  3. runs demo.py on the modified source           -> must exit non-zero
  4. runs ./check <PROP> against the modified tree -> records the verdict
and writes seeded/<name>/{patch.diff,demo.py,notes.md,meta.json}.
"""
import argparse
import json
import os
import shutil
import subprocess
import sys
import tempfile
import time

HERE = os.path.dirname(os.path.abspath(__file__))
VERIF = os.path.dirname(HERE)


def sh(cmd, **kw):
    return subprocess.run(cmd, capture_output=True, text=True, **kw)


def main():
    ap = argparse.ArgumentParser()
    ap.add_argument('prop')
    ap.add_argument('src')
    ap.add_argument('name')
    ap.add_argument('--needs', default='')
    ap.add_argument('--tier', default='quick')
    ap.add_argument('--extra-checks', default='')
    args = ap.parse_args()
    prop = args.prop.upper()
    patch = os.path.join(args.src, 'patch.diff')
    demo = os.path.join(args.src, 'demo.py')
    assert os.path.exists(patch) and os.path.exists(demo), 'patch.diff / demo.py missing in ' + args.src
    d = tempfile.mkdtemp(prefix='ppgm-seed-')
    root = d + '/r'
    sh(['git', '-C', '/repo', 'worktree', 'add', '--detach', '-f', root, 'HEAD'], check=True)
    out_dir = root + '/_out'
    shutil.copytree(args.src, out_dir, ignore=shutil.ignore_patterns('__pycache__'))
    env = dict(os.environ, PYTHONPATH=root + '/src:' + root)
    ran = []
    ok = True
    try:
        def run_demo():
            s = open(out_dir + '/demo.py').read()
            # demos written for /tmp/sa/<ID> paths: point them at this scratch tree
            for old in ('/tmp/sa/%s' % prop, '/tmp/sb/%s' % prop, '/tmp/sc/%s' % prop, '/tmp/sd/%s' % prop, '/tmp/se/%s' % prop, '/tmp/sf/%s' % prop, '/tmp/sg/%s' % prop, '/tmp/sh/%s' % prop, '/tmp/si/%s' % prop, '/tmp/sj/%s' % prop, '/tmp/sk/%s' % prop):
                s = s.replace(old, root)
            open(out_dir + '/demo_run.py', 'w').write(s)
            return sh(['/venv/bin/python', out_dir + '/demo_run.py'], cwd=root, env=env, timeout=3600)
        r0 = run_demo()
        ran.append('demo on unmodified source: exit %d' % r0.returncode)
        ok &= (r0.returncode == 0)
        ap_ = sh(['git', '-C', root, 'apply', '--exclude=_out/*', patch])
        ran.append('git apply patch.diff: exit %d %s' % (ap_.returncode, ap_.stderr.strip()[:200]))
        ok &= (ap_.returncode == 0)
        t = sh(['/venv/bin/python', '-m', 'pytest', '-q', '-p', 'no:cacheprovider', '--timeout=900'], cwd=root, env=env, timeout=3600)
        tail = (t.stdout.strip().splitlines() or [''])[-1]
        ran.append('repository suite with the change: %s' % tail)
        ok &= (t.returncode == 0)
        r1 = run_demo()
        ran.append('demo with the change: exit %d (%s)' % (r1.returncode, (r1.stdout.strip().splitlines() or [''])[-1][:200]))
        ok &= (r1.returncode != 0)
        results = {}
        for p in [prop] + [x for x in args.extra_checks.split(',') if x]:
            t0 = time.time()
            c = sh([os.path.join(VERIF, 'check'), p, '--tier', args.tier, '--no-evidence'], cwd=VERIF, env=dict(os.environ, VP_REPO=root), timeout=7200)
            first = [l for l in c.stdout.splitlines() if l.startswith('  ')][:1]
            results[p] = dict(exit=c.returncode, violations=len([l for l in c.stdout.splitlines() if l.startswith('VIOLATION')]),
                              first=(first[0].strip()[:300] if first else c.stdout.strip().splitlines()[-1][:300]), wall_s=round(time.time() - t0, 1))
            ran.append('./check %s --tier %s against the change: exit %d' % (p, args.tier, c.returncode))
    finally:
        sh(['git', '-C', '/repo', 'worktree', 'remove', '--force', root])
        shutil.rmtree(d, ignore_errors=True)
        sh(['git', '-C', '/repo', 'worktree', 'prune'])
    for l in ran:
        print(l)
    if not ok:
        print('NOT CONFIRMED: the change is not kept')
        return 1
    dst = os.path.join(VERIF, 'seeded', args.name)
    os.makedirs(dst, exist_ok=True)
    for f in ('patch.diff', 'demo.py', 'notes.md'):
        if os.path.exists(os.path.join(args.src, f)):
            shutil.copy(os.path.join(args.src, f), os.path.join(dst, f))
    for extra in os.listdir(args.src):
        p = os.path.join(args.src, extra)
        if os.path.isdir(p) and extra not in ('__pycache__',):
            shutil.copytree(p, os.path.join(dst, extra), dirs_exist_ok=True, ignore=shutil.ignore_patterns('__pycache__'))
    meta = dict(property=prop, name=args.name, written_by='independent sub-agent given only the property text and a scratch worktree',
                needs_to_manifest=args.needs, confirmed=ran, check_results=results,
                repo_head=sh(['git', '-C', '/repo', 'rev-parse', '--short', 'HEAD']).stdout.strip())
    json.dump(meta, open(os.path.join(dst, 'meta.json'), 'w'), indent=1)
    print('kept as', dst, '| owning check:', results[prop])
    return 0


if __name__ == '__main__':
    sys.exit(main())
