"""Small realistic mutations used to validate the checks (tools/selfval.py).
Each is a textual replacement against the current /repo tree."""
import glob
import json
import os

HERE = os.path.dirname(os.path.abspath(__file__))
VERIF = os.path.dirname(HERE)
ALL_PROPS = ['C%02d' % i for i in range(1, 21)]

GM = 'src/mbi/graphical_model.py'
JT = 'src/mbi/junction_tree.py'
FA = 'src/mbi/factor.py'
CV = 'src/mbi/clique_vector.py'
INF = 'src/mbi/inference.py'
DS = 'src/mbi/dataset.py'
DO = 'src/mbi/domain.py'
RG = 'src/mbi/region_graph.py'
FG = 'src/mbi/factor_graph.py'
LI = 'src/mbi/local_inference.py'
PI = 'src/mbi/public_inference.py'
MECH = 'mechanisms/mechanism.py'
CDP = 'mechanisms/cdp2adp.py'
MST = 'mechanisms/mst.py'
AIM = 'mechanisms/aim.py'
MWEM = 'mechanisms/mwem+pgm.py'
AG = 'mechanisms/adaptive_grid.py'


def m(prop, name, *edits):
    return dict(prop=prop, name=name, edits=[tuple(e) for e in edits])


MUTANTS = [
    # ---- C01 ------------------------------------------------------------
    m('C01', 'bp_no_reverse_division', (GM, "                tau = beliefs[i] - messages[(j,i)]", "                tau = beliefs[i]")),
    m('C01', 'sub_no_inf_guard', (FA, "np.where(other.values==-np.inf, 0, -other.values)", "-other.values")),
    m('C01', 'min_weight_spanning_tree', (JT, "complete.add_edge(c1, c2, weight=-wgt)", "complete.add_edge(c1, c2, weight=wgt)")),
    m('C01', 'mp_order_sorted_not_topological', (JT, "return list(nx.topological_sort(G)) ", "return sorted(G.nodes()) ")),
    m('C01', 'bp_forgets_total', (GM, "            beliefs[cl] += np.log(self.total) - logZ\n", "            beliefs[cl] += - logZ\n")),
    m('C01', 'no_fill_in_edges', (JT, "            edges |= tmp\n", "            pass\n")),
    m('C01', 'separator_from_first_two', (JT, "return { (i,j) : tuple(set(i)&set(j)) for i,j in self.mp_order() }",
                                          "return { (i,j) : tuple(set(i)&set(j))[:2] for i,j in self.mp_order() }")),
]


def all_mutants():
    out = list(MUTANTS)
    for d in sorted(glob.glob(os.path.join(VERIF, 'seeded', '*'))):
        meta = os.path.join(d, 'meta.json')
        patch = os.path.join(d, 'patch.diff')
        if os.path.exists(meta) and os.path.exists(patch):
            with open(meta) as f:
                j = json.load(f)
            out.append(dict(prop=j['property'], name='seeded/' + os.path.basename(d), patch=patch))
    return out
