"""Small realistic mutations used to validate the checks (tools/selfval.py).
Each is a textual replacement against the current /repo tree."""
import glob
import json
import os

HERE = os.path.dirname(os.path.abspath(__file__))
VERIF = os.path.dirname(HERE)
ALL_PROPS = ['C%02d' % i for i in range(1, 21)]

GM = 'src/mbi/graphical_model.py'
JT = 'src/mbi/junction_tree.py'
FA = 'src/mbi/factor.py'
CV = 'src/mbi/clique_vector.py'
INF = 'src/mbi/inference.py'
DS = 'src/mbi/dataset.py'
DO = 'src/mbi/domain.py'
RG = 'src/mbi/region_graph.py'
FG = 'src/mbi/factor_graph.py'
LI = 'src/mbi/local_inference.py'
PI = 'src/mbi/public_inference.py'
MECH = 'mechanisms/mechanism.py'
CDP = 'mechanisms/cdp2adp.py'
MST = 'mechanisms/mst.py'
AIM = 'mechanisms/aim.py'
MWEM = 'mechanisms/mwem+pgm.py'
AG = 'mechanisms/adaptive_grid.py'


def m(prop, name, *edits):
    return dict(prop=prop, name=name, edits=[tuple(e) for e in edits])


MUTANTS = [
    # ---- C01 ------------------------------------------------------------
    m('C01', 'bp_no_reverse_division', (GM, "                tau = beliefs[i] - messages[(j,i)]", "                tau = beliefs[i]")),
    m('C01', 'sub_no_inf_guard', (FA, "np.where(other.values==-np.inf, 0, -other.values)", "-other.values")),
    m('C01', 'min_weight_spanning_tree', (JT, "complete.add_edge(c1, c2, weight=-wgt)", "complete.add_edge(c1, c2, weight=wgt)")),
    m('C01', 'mp_order_sorted_not_topological', (JT, "return list(nx.topological_sort(G)) ", "return sorted(G.nodes()) ")),
    m('C01', 'bp_forgets_total', (GM, "            beliefs[cl] += np.log(self.total) - logZ\n", "            beliefs[cl] += - logZ\n")),
    m('C01', 'no_fill_in_edges', (JT, "            edges |= tmp\n", "            pass\n")),
    m('C01', 'separator_from_first_two', (JT, "return { (i,j) : tuple(set(i)&set(j)) for i,j in self.mp_order() }",
                                          "return { (i,j) : tuple(set(i)&set(j))[:2] for i,j in self.mp_order() }")),
    # ---- C02 ------------------------------------------------------------
    m('C02', 'project_cached_in_clique_order', (GM, "                    return self.marginals[cl].project(attrs)", "                    return self.marginals[cl].project(self.domain.canonical(attrs))")),
    m('C02', 'krondot_forgets_total', (GM, "return result.datavector(flatten=False) * self.total / np.exp(logZ)", "return result.datavector(flatten=False) / np.exp(logZ)")),
    m('C02', 'many_marginals_sum_over_wrong_set', (GM, "                S = set(Cl) - set(Ci) - set(Cj)", "                S = set(Cl) - set(Ci)")),
    m('C02', 'many_marginals_answers_uncanonical', (GM, "                    answers[proj] = results[attr].project(proj)", "                    answers[proj] = results[attr].project(self.domain.canonical(proj))")),
    m('C02', 've_logspace_forgets_total', (GM, "    return (ans - ans.logsumexp() + np.log(total)).exp()", "    return (ans - ans.logsumexp()).exp()")),
    # ---- C14 ------------------------------------------------------------
    m('C14', 'revert_F0_logaddexp', (FA, "        factor2 = other.expand(newdom)\n        return Factor(newdom, np.logaddexp", "        factor2 = self.expand(newdom)\n        return Factor(newdom, np.logaddexp")),
    m('C14', 'expand_moveaxis_swapped', (FA, "        ax = domain.axes(self.domain.attrs)\n        values = np.moveaxis(values, range(len(ax)), ax)", "        ax = domain.axes(self.domain.attrs)\n        values = np.moveaxis(values, ax, range(len(ax)))")),
    m('C14', 'transpose_moveaxis_swapped', (FA, "        ax = newdom.axes(self.domain.attrs)\n        values = np.moveaxis(self.values, range(len(ax)), ax)", "        ax = newdom.axes(self.domain.attrs)\n        values = np.moveaxis(self.values, ax, range(len(ax)))")),
    m('C14', 'project_no_transpose', (FA, "        return ans.transpose(attrs)", "        return ans")),
    m('C14', 'combine_proper_subset_only', (CV, "                if set(cl) <= set(cl2):", "                if set(cl) < set(cl2):")),
    m('C14', 'combine_no_break', (CV, "                    self[cl2] += other[cl]\n                    break", "                    self[cl2] += other[cl]")),
    m('C14', 'div_zero_cells_not_cleared', (FA, "        vals[tmp.values<=0] = 0.0\n", "")),
    m('C14', 'imul_adds', (FA, "        factor2 = other.expand(self.domain)\n        self.values *= factor2.values", "        factor2 = other.expand(self.domain)\n        self.values += factor2.values")),
    m('C14', 'condition_positional', (FA, "        slices = [evidence[a] if a in evidence else slice(None) for a in self.domain]", "        slices = list(evidence.values()) + [slice(None)]*(len(self.domain)-len(evidence))")),
    m('C14', 'copy_out_aliases', (FA, "            return Factor(self.domain, self.values.copy())", "            return Factor(self.domain, self.values)")),
    m('C14', 'cv_sub_wrong_sign', (CV, "        return self + -1*other", "        return -1*self + other")),
    # ---- C15 ------------------------------------------------------------
    m('C15', 'project_drops_weights', (DS, "        return Dataset(data, domain, self.weights)", "        return Dataset(data, domain)")),
    m('C15', 'df_not_reordered', (DS, "        self.df = df.loc[:,domain.attrs]", "        self.df = df[[c for c in df.columns if c in domain.attrs]]")),
    m('C15', 'canonical_keeps_given_order', (DO, "        return tuple(a for a in self.attrs if a in attrs)", "        return tuple(a for a in attrs if a in self.attrs)")),
    m('C15', 'merge_puts_new_first', (DO, "        return Domain(self.attrs + extra.attrs, self.shape + extra.shape)", "        return Domain(extra.attrs + self.attrs, extra.shape + self.shape)")),
    m('C15', 'sort_size_descending', (DO, "            attrs = sorted(self.attrs, key=self.size)", "            attrs = sorted(self.attrs, key=self.size, reverse=True)")),
    m('C15', 'marginalize_sorted', (DO, "        proj = [a for a in self.attrs if not a in attrs]", "        proj = sorted(a for a in self.attrs if not a in attrs)")),
    m('C15', 'datavector_ignores_weights', (DS, "        ans = np.histogramdd(self.df.values, bins, weights=self.weights)[0]", "        ans = np.histogramdd(self.df.values, bins)[0]")),
    # ---- C12 ------------------------------------------------------------
    m('C12', 'no_fill_in_edges', (JT, "            edges |= tmp\n", "            pass\n")),
    m('C12', 'min_weight_spanning_tree', (JT, "complete.add_edge(c1, c2, weight=-wgt)", "complete.add_edge(c1, c2, weight=wgt)")),
    m('C12', 'mp_order_no_backflow_exclusion', (JT, "                if m1[1] == m2[0] and m1[0] != m2[1]:", "                if m1[1] == m2[0]:")),
    m('C12', 'mp_order_dependency_reversed', (JT, "                    edges.add( (m1, m2) )", "                    edges.add( (m2, m1) )")),
    m('C12', 'fill_in_added_after_removal', (JT, "            G.add_edges_from(tmp)\n            G.remove_node(node)", "            G.remove_node(node)")),
    m('C12', 'tree_skips_zero_weight_edges', (JT, "            wgt = len(set(c1) & set(c2))\n            complete.add_edge(c1, c2, weight=-wgt)", "            wgt = len(set(c1) & set(c2))\n            if wgt > 0: complete.add_edge(c1, c2, weight=-wgt)")),
    m('C12', 'separator_one_sided', (JT, "return { (i,j) : tuple(set(i)&set(j)) for i,j in self.mp_order() }", "return { (i,j) : tuple(set(i)&set(j)) for i,j in self.tree.edges() }")),
    # ---- C07 ------------------------------------------------------------
    m('C07', 'cdp_rho_returns_rhomax', (CDP, "    return rhomin\n", "    return rhomax\n")),
    m('C07', 'cdp_rho_rhomax_too_small', (CDP, "    rhomax=eps+1 #maintain", "    rhomax=eps/4 #maintain")),
    m('C07', 'cdp_delta_exponent_alpha', (CDP, "    delta = math.exp((alpha-1)*(alpha*rho-eps)+alpha*math.log1p(-1/alpha)) / (alpha-1.0)", "    delta = math.exp((alpha-1)*(alpha*rho-eps)+(alpha-1)*math.log1p(-1/alpha)) / (alpha-1.0)")),
    m('C07', 'cdp_delta_few_iterations', (CDP, "    for i in range(1000): #should be enough iterations", "    for i in range(12): #should be enough iterations")),
    m('C07', 'cdp_delta_derivative_sign', (CDP, "        derivative = (2*alpha-1)*rho-eps+math.log1p(-1.0/alpha)", "        derivative = (2*alpha-1)*rho-eps-math.log1p(-1.0/alpha)")),
    m('C07', 'cdp_eps_returns_epsmin', (CDP, "    return epsmax\n", "    return epsmin\n")),
    m('C07', 'cdp_eps_epsmax_too_small', (CDP, "    epsmax=rho+2*math.sqrt(rho*math.log(1/delta))", "    epsmax=rho+math.sqrt(rho*math.log(1/delta))")),
    m('C07', 'cdp_delta_standard_bound', (CDP, "    return min(delta,1.0) #delta<=1 always", "    return min(max(delta, cdp_delta_standard(rho,eps)) if eps>rho else delta,1.0) #delta<=1 always")),
    # ---- C20 ------------------------------------------------------------
    m('C20', 'mech_em_coef_one', (MECH, "            p = softmax(0.5*epsilon/sensitivity*q + base_measure)", "            p = softmax(1.0*epsilon/sensitivity*q + base_measure)")),
    m('C20', 'mech_em_sensitivity_multiplied', (MECH, "            p = softmax(0.5*epsilon/sensitivity*q)", "            p = softmax(0.5*epsilon*sensitivity*q)")),
    m('C20', 'mech_em_base_linear', (MECH, "                base_measure = np.log([base_measure[key] for key in keys])\n        else:\n            qualities = np.array(qualities)", "                base_measure = np.array([base_measure[key] for key in keys])\n        else:\n            qualities = np.array(qualities)")),
    m('C20', 'laplace_scale_bounded_dropped', (MECH, "        if self.bounded: l1_sensitivity *= 2.0\n", "")),
    m('C20', 'gaussian_noise_variance_not_sd', (MECH, "        return self.prng.normal(0, sigma, size)", "        return self.prng.normal(0, sigma**2, size)")),
    m('C20', 'mst_em_monotonic_swapped', (MST, "    coef = 1.0 if monotonic else 0.5\n    scores = coef*eps/sensitivity*q", "    coef = 0.5 if monotonic else 1.0\n    scores = coef*eps/sensitivity*q")),
    m('C20', 'ag_em_no_sensitivity', (AG, "    scores = coef * eps / sensitivity * (q - q.max())", "    scores = coef * eps * (q - q.max())")),
    m('C20', 'mwem_wa_bounded_ignored', (MWEM, "    sensitivity = 2.0 if bounded else 1.0", "    sensitivity = 1.0")),
    m('C20', 'aim_wa_min_sensitivity', (AIM, "        max_sensitivity = max(sensitivity.values())", "        max_sensitivity = min(sensitivity.values())")),
    m('C20', 'mst_measure_reports_sigma', (MST, "        measurements.append( (Q, y, sigma/wgt, proj) )", "        measurements.append( (Q, y, sigma, proj) )")),
    m('C20', 'best_noise_inverted', (MECH, "        if np.sqrt(2)*b < sigma:\n            return partial(self.laplace_noise, b)", "        if np.sqrt(2)*b > sigma:\n            return partial(self.laplace_noise, b)")),
    m('C20', 'gem_dict_keys_sorted', (MECH, "            keys = list(qualities.keys())\n            qualities = np.array([qualities[key] for key in keys])\n            sensitivities", "            keys = sorted(qualities.keys())\n            qualities = np.array([qualities[key] for key in qualities])\n            sensitivities")),
    # ---- C04 ------------------------------------------------------------
    m('C04', 'grad_noise_once', (INF, "                    loss += 0.5*(diff @ diff)\n                    grad = c*(Q.T @ diff)", "                    loss += 0.5*(diff @ diff)\n                    grad = (Q.T @ diff)")),
    m('C04', 'l1_grad_uses_diff', (INF, "                    grad = c*(Q.T @ sign)", "                    grad = c*(Q.T @ diff)")),
    m('C04', 'grouping_no_break', (INF, "                if set(proj) <= set(cl):\n                    self.groups[cl].append(m)\n                    break", "                if set(proj) <= set(cl):\n                    self.groups[cl].append(m)")),
    m('C04', 'project_sorted_attrs', (INF, "                mu2 = mu.project(proj)", "                mu2 = mu.project(tuple(sorted(proj)))")),
    m('C04', 'lipschitz_p_over_n', (INF, "                    eigs[cl] += eig * n / p / noise**2", "                    eigs[cl] += eig * p / n / noise**2")),
    m('C04', 'lipschitz_noise_not_squared', (INF, "                    eigs[cl] += eig * n / p / noise**2", "                    eigs[cl] += eig * n / p / noise")),
    m('C04', 'revert_F3_lipschitz_grouping', (INF, "            for cl in sorted(self.model.cliques, key=self.model.domain.size):\n                if set(proj) <= set(cl):\n                    n = self.domain.size(cl)", "            for cl in self.model.cliques:\n                if set(proj) <= set(cl):\n                    n = self.domain.size(cl)")),
    m('C04', 'linop_not_transposed', (INF, "                    loss += 0.5*(diff @ diff)\n                    grad = c*(Q.T @ diff)", "                    loss += 0.5*(diff @ diff)\n                    grad = c*(Q.T @ diff) if not isinstance(Q, LinearOperator) else c*(Q.T @ np.abs(diff))")),
    m('C04', 'str_proj_split', (INF, "            if type(proj) is not tuple:\n                proj = (proj,)", "            if type(proj) is not tuple:\n                proj = tuple(proj)")),
    # ---- C09 ------------------------------------------------------------
    m('C09', 'revert_F5_inference', (INF, "                v = lsmr(Q.T, o, atol=0, btol=0, maxiter=10*max(Q.shape))[0]", "                v = lsmr(Q.T, o, atol=0, btol=0)[0]")),
    m('C09', 'revert_F5_public', (PI, "        v = lsmr(Q.T, o, atol=0, btol=0, maxiter=10*max(Q.shape))[0]", "        v = lsmr(Q.T, o, atol=0, btol=0)[0]")),
    m('C09', 'variance_without_vnorm', (INF, "                    variances = np.append(variances, noise**2 * np.dot(v, v))", "                    variances = np.append(variances, noise**2)")),
    m('C09', 'plain_mean', (INF, "                estimate = variance * np.sum(estimates / variances)\n                total = max(1, estimate)", "                estimate = np.mean(estimates)\n                total = max(1, estimate)")),
    m('C09', 'floor_dropped', (LI, "                total = max(1, estimate)", "                total = estimate")),
    m('C09', 'membership_test_removed', (INF, "                if np.allclose(Q.T.dot(v), o):\n                    variances", "                if True:\n                    variances")),
    m('C09', 'supplied_total_overridden_when_small', (INF, "        if total is None:\n            # find the minimum variance estimate", "        if total is None or total < 2:\n            # find the minimum variance estimate")),
    m('C09', 'public_total_not_applied', (PI, "    logP = np.log(x0+np.nextafter(0,1)) + np.log(total) - np.log(x0.sum())", "    logP = np.log(x0+np.nextafter(0,1)) - np.log(x0.sum())")),
    m('C09', 'variance_uses_sd', (LI, "                    variances = np.append(variances, noise**2 * np.dot(v, v))", "                    variances = np.append(variances, noise * np.dot(v, v))")),
    # ---- C03 ------------------------------------------------------------
    m('C03', 'grad_noise_once', (INF, "                    loss += 0.5*(diff @ diff)\n                    grad = c*(Q.T @ diff)", "                    loss += 0.5*(diff @ diff)\n                    grad = (Q.T @ diff)")),
    m('C03', 'grouping_drops_repeated_proj', (INF, "                if set(proj) <= set(cl):\n                    self.groups[cl].append(m)\n                    break", "                if set(proj) <= set(cl):\n                    self.groups[cl] = [g for g in self.groups[cl] if g[3] != proj] + [m]\n                    break")),
    m('C03', 'armijo_inverted', (INF, "                if nols or curr_loss - ans[0] >= 0.5*alpha*dL.dot(nu-mu):", "                if nols or curr_loss - ans[0] <= 0.5*alpha*dL.dot(nu-mu):")),
    m('C03', 'ig_average_weights_swapped', (INF, "            x = (1-a)*x + a*z\n            if callback is not None:", "            x = a*x + (1-a)*z\n            if callback is not None:")),
    # ---- C08 ------------------------------------------------------------
    m('C08', 'revert_F9_md_drift', (INF, "                theta = CliqueVector({ cl : theta[cl] - theta[cl].max() for cl in theta })\n", "")),
    m('C08', 'revert_F4_ig_zero_L', (INF, "        if L == 0: return\n    \n        theta = model.potentials\n        x = y = z", "    \n        theta = model.potentials\n        x = y = z")),
    m('C08', 'md_theta_mu_mismatch', (INF, "        model.potentials = theta\n        model.marginals = mu\n\n        return ans[0]", "        model.potentials = omega\n        model.marginals = mu\n\n        return ans[0]")),
    m('C08', 'rda_potentials_not_refit', (INF, "        model.marginals = w\n        model.potentials = model.mle(w) ", "        model.marginals = w\n        model.potentials = theta ")),
    m('C08', 'ig_marginals_from_last_z', (INF, "        model.marginals = x\n        model.potentials = model.mle(x) ", "        model.marginals = z\n        model.potentials = model.mle(x) ")),
    m('C08', 'mle_ignores_separator', (GM, "            potentials[cl] = marginals[cl].log() - marginals[cl].project(new).log()", "            potentials[cl] = marginals[cl].log() - marginals[cl].project(new[:1]).log()")),
    m('C08', 'md_early_exit_without_marginals_total', (INF, "        mu = model.belief_propagation(theta)\n        ans = self._marginal_loss(mu)\n        if ans[0] == 0:\n            return ans[0]", "        mu = model.belief_propagation(theta)\n        ans = self._marginal_loss(mu)\n        if ans[0] == 0:\n            model.marginals = mu * 0.5\n            return ans[0]")),
    m('C03', 'revert_F9_md_drift', (INF, "                theta = CliqueVector({ cl : theta[cl] - theta[cl].max() for cl in theta })\n", "")),
    # ---- C10 ------------------------------------------------------------
    m('C10', 'revert_F2_rda_drops_theta0', (INF, "            theta = theta0 - t*(t+1)/(4*L+beta)/self.model.total * gbar", "            theta = -t*(t+1)/(4*L+beta)/self.model.total * gbar")),
    m('C10', 'revert_F9_md_drift', (INF, "                theta = CliqueVector({ cl : theta[cl] - theta[cl].max() for cl in theta })\n", "")),
    m('C10', 'zeros_not_combined', (INF, "        model.potentials.combine(self.structural_zeros)\n        if self.warm_start", "        if self.warm_start")),
    m('C10', 'warm_start_overwrites', (INF, "            model.potentials.combine(self.model.potentials)", "            model.potentials = CliqueVector.zeros(self.domain, model.cliques); model.potentials.combine(self.model.potentials)")),
    m('C10', 'active_ignores_key_order', (INF, "            dom = self.domain.project(cl)\n            fact = structural_zeros[cl]\n            self.structural_zeros[cl] = self.Factor.active(dom,fact)", "            dom = self.domain.project(self.domain.canonical(cl))\n            fact = structural_zeros[cl]\n            self.structural_zeros[cl] = self.Factor.active(dom,fact)")),
    m('C10', 'zero_cliques_not_in_model', (INF, "        if self.structural_zeros is not None:\n            cliques += list(self.structural_zeros.keys())\n\n        model = GraphicalModel", "        model = GraphicalModel")),
    m('C10', 'active_uses_large_negative', (FA, "        vals[idx] = -np.inf\n", "        vals[idx] = -100.0\n")),
    m('C10', 'ig_theta_nan_to_num', (INF, "            theta = theta - a/c/total * g\n", "            theta = theta - a/c/total * g\n            theta = CliqueVector({cl: self.Factor(theta[cl].domain, np.nan_to_num(theta[cl].values, neginf=-50.0)) for cl in theta})\n")),
    # ---- C13 ------------------------------------------------------------
    m('C13', 'groups_cached_across_calls', (INF, "        self.groups = defaultdict(lambda: [])\n", "        if not hasattr(self, 'groups'): self.groups = defaultdict(lambda: [])\n")),
    m('C13', 'warm_potentials_always_combined', (INF, "        if self.warm_start and hasattr(self, 'model'):\n            model.potentials.combine(self.model.potentials)", "        if hasattr(self, 'model'):\n            model.potentials.combine(self.model.potentials)")),
    m('C13', 'measurements_sorted_in_place', (INF, "        measurements = self.fix_measurements(measurements)\n        options['callback'] = callback", "        measurements.sort(key=lambda m: len(m[3]))\n        measurements = self.fix_measurements(measurements)\n        options['callback'] = callback")),
    m('C13', 'y_centered_in_place', (INF, "            assert np.isscalar(noise), 'noise must be a real value, given ' + str(noise)", "            assert np.isscalar(noise), 'noise must be a real value, given ' + str(noise)\n            np.maximum(y, 0, out=y)")),
    m('C13', 'total_remembered', (INF, "        if total is None:\n            # find the minimum variance estimate", "        if total is None and hasattr(self, 'model'): total = self.model.total\n        if total is None:\n            # find the minimum variance estimate")),
    m('C13', 'potentials_reuse_previous_model', (INF, "        model.potentials = CliqueVector.zeros(self.domain, model.cliques)\n", "        model.potentials = CliqueVector.zeros(self.domain, model.cliques)\n        if hasattr(self, 'model') and set(self.model.cliques) == set(model.cliques):\n            model.potentials = self.model.potentials\n            for cl in model.potentials: model.potentials[cl].values[...] = 0\n")),
    m('C13', 'rda_reuses_returned_marginals_buffer', (INF, "        w = v = model.belief_propagation(theta)\n        beta = 0\n", "        w = v = model.belief_propagation(theta)\n        if hasattr(self, '_w') and set(self._w) == set(w):\n            for cl in w: np.copyto(self._w[cl].values, w[cl].values)\n        self._w = w\n        beta = 0\n"), (INF, "        model.marginals = w\n        model.potentials = model.mle(w) ", "        model.marginals = self._w = w\n        model.potentials = model.mle(w) ")),
    m('C13', 'zeros_spec_normalised_in_place', (INF, "        self.structural_zeros = CliqueVector({})\n        for cl in structural_zeros:", "        self.structural_zeros = CliqueVector({})\n        for cl in list(structural_zeros):\n            structural_zeros[cl] = sorted(structural_zeros[cl])\n        for cl in structural_zeros:")),
    m('C13', 'stepsize_option_sticky', (INF, "        options['callback'] = callback\n        if callback is None and self.log:", "        self._opts = dict(getattr(self, '_opts', {}), **options); options = self._opts\n        options['callback'] = callback\n        if callback is None and self.log:")),
    # ---- C11 ------------------------------------------------------------
    m('C11', 'revert_F1_groupby_columns', (GM, "df = df.groupby(list(proj), group_keys=False)[list(cols)].apply(foo)", "df = df.groupby(list(proj), group_keys=False).apply(foo)")),
    m('C11', 'rows_rounded_not_truncated', (GM, "        total = int(self.total) if rows is None else rows", "        total = int(round(self.total)) if rows is None else rows")),
    m('C11', 'conditioning_on_all_used', (GM, "            relevant = used.intersection(set.union(*relevant))", "            relevant = set(list(used)[:1])")),
    m('C11', 'round_mode_samples_remainder_with_replacement', (GM, "                idx = np.random.choice(counts.size, extra, False, frac / frac.sum())", "                idx = np.random.choice(counts.size, extra, True, frac / frac.sum())")),
    m('C11', 'round_mode_falls_back_to_sampling', (GM, "            if method == 'sample':\n                probas", "            if method == 'sample' or total > 5000:\n                probas")),
    m('C11', 'uniform_remainder', (GM, "                idx = np.random.choice(counts.size, extra, False, frac / frac.sum())", "                idx = np.random.choice(counts.size, extra, False)")),
    m('C11', 'first_column_from_uniform', (GM, "        marg = self.project([col]).datavector(flatten=False)\n        df.loc[:,col] = synthetic_col(marg, total)", "        marg = self.project([col]).datavector(flatten=False)\n        df.loc[:,col] = synthetic_col(np.ones_like(marg), total)")),
    m('C11', 'no_shuffle_no_problem_but_values_offset', (GM, "            vals = np.repeat(np.arange(counts.size), integ)", "            vals = np.repeat(np.arange(counts.size), integ) + (counts.size > 3)")),
    # ---- C16 ------------------------------------------------------------
    m('C16', 'gbp_final_normalisation_dropped', (RG, "            belief = potentials[r] + sum(self.messages[r1,r2] for r1,r2 in self.B[r])\n            belief += np.log(self.total) - belief.logsumexp()", "            belief = potentials[r] + sum(self.messages[r1,r2] for r1,r2 in self.B[r])\n            belief += np.log(self.total) - belief.max()")),
    m('C16', 'gbp_cancellation_removed', (RG, "                        cancel = N[p,r] & D[p,r]\n                        N[p,r] = N[p,r] - cancel\n                        D[p,r] = D[p,r] - cancel", "                        cancel = N[p,r] & D[p,r]")),
    m('C16', 'gbp_denominator_dropped', (RG, "                new[ru,rd] = num.logsumexp(diff) - denom", "                new[ru,rd] = num.logsumexp(diff)")),
    m('C16', 'gbp_belief_misses_descendant_messages', (RG, "                    for d in self.descendants[r]:\n                        for p in set(self.parents[d]) - {r} - set(self.descendants[r]):\n                            B[r].add((p,d))  ", "                    pass")),
    m('C16', 'lbp_excludes_wrong_message', (FG, "                    mu_f[cl][v] = potentials[cl] + pre - mu_n[v][cl]", "                    mu_f[cl][v] = potentials[cl] + pre")),
    m('C16', 'lbp_var_to_factor_keeps_own', (FG, "                    mu_n[v][f] = pre - mu_f[f][v] #sum(mu_f[c][v] for c in complement)", "                    mu_n[v][f] = pre #sum(mu_f[c][v] for c in complement)")),
    m('C16', 'fg_marginals_forget_total', (FG, "            belief += np.log(self.total) - belief.logsumexp()\n            marginals[cl] = belief.exp()", "            belief += - belief.logsumexp()\n            marginals[cl] = belief.exp()")),
    m('C16', 'hps_belief_linear_overflow', (RG, "                belief += np.log(self.total) - belief.logsumexp()\n                mu[r] = belief.exp()", "                mu[r] = belief.exp()\n                mu[r] = mu[r] * (self.total / mu[r].sum())")),
    # ---- C17 ------------------------------------------------------------
    m('C17', 'cc_denominator_without_self', (RG, "                cc[p,r] = c0[p] / (c0[r] + sum(c0[p1] for p1 in self.parents[r]))", "                cc[p,r] = c0[p] / (sum(c0[p1] for p1 in self.parents[r]))")),
    m('C17', 'downward_parent_message_sign', (RG, "sum(messages[c,p] for c in self.children[p] if c!=r) - sum(messages[p,p1] for p1 in self.parents[p])) / c0[p]", "sum(messages[c,p] for c in self.children[p] if c!=r) + sum(messages[p,p1] for p1 in self.parents[p])) / c0[p]")),
    m('C17', 'upward_uses_new_downward', (RG, "                    new[r,p] = cc[p,r]*(pot[r] + sum(messages[c,r] for c in self.children[r]) + sum(messages[p1,r] for p1 in self.parents[r])) - messages[p,r]", "                    new[r,p] = cc[p,r]*(pot[r] + sum(messages[c,r] for c in self.children[r]) + sum(new[p1,r] for p1 in self.parents[r])) - messages[p,r]")),
    m('C17', 'pruning_keeps_one_parent', (RG, "                min_edges.extend([(u,r) for u in canonical])", "                min_edges.extend([(u,r) for u in list(canonical)[:1]])")),
    m('C17', 'belief_ignores_children', (RG, "                belief = (pot[r] + sum(messages[c,r] for c in self.children[r]) - sum(messages[r,p] for p in self.parents[r])) / c0[r]", "                belief = (pot[r] - sum(messages[r,p] for p in self.parents[r])) / c0[r]")),
    m('C17', 'intersection_potentials_dropped', (RG, "        c0 = self.counting_numbers\n        pot = {}\n        for r in self.regions:\n            if r in self.cliques: pot[r] = potentials[r]", "        c0 = self.counting_numbers\n        pot = {}\n        for r in self.regions:\n            if r in self.cliques and len(self.parents[r]) == 0: pot[r] = potentials[r]")),
    m('C17', 'early_stop_loose', (RG, "        return self.primal_feasibility(mu) <= self.convergence", "        return self.primal_feasibility(mu) <= max(self.convergence, 1e-3)")),
    m('C17', 'revert_F12_duplicate_regions', (RG, "                if len(z) > 0 and not any(set(z) == set(r) for r in regions):", "                if len(z) > 0 and not z in regions:")),
    m('C16', 'revert_F12_duplicate_regions', (RG, "                if len(z) > 0 and not any(set(z) == set(r) for r in regions):", "                if len(z) > 0 and not z in regions:")),
    # ---- C18 ------------------------------------------------------------
    m('C18', 'revert_F7_damping_attr', (LI, "                    if hasattr(model, 'damping'): # only region graphs are damped\n                        model.damping = (0.9 + model.damping) / 2.0\n                        if self.log: print('Increasing damping and continuing', model.damping)", "                    model.damping = (0.9 + model.damping) / 2.0\n                    if self.log: print('Increasing damping and continuing', model.damping)")),
    m('C18', 'restart_same_alpha', (LI, "                    return self.mirror_descent_auto(alpha/2, iters, callback)", "                    return self.mirror_descent_auto(alpha, iters, callback)")),
    m('C18', 'grouping_no_break', (LI, "                if set(proj) <= set(cl):\n                    self.groups[cl].append(m)\n                    break", "                if set(proj) <= set(cl):\n                    self.groups[cl].append(m)")),
    m('C18', 'feasibility_loop_skipped', (LI, "        for _ in range(1000):\n            if model.primal_feasibility(mu) < 1.0:", "        for _ in range(0):\n            if model.primal_feasibility(mu) < 1.0:")),
    m('C18', 'uptick_continues_without_halving', (LI, "                    alpha *= 0.5\n            prev_l = l", "            prev_l = l")),
    m('C18', 'gradient_step_ascent', (LI, "            theta = theta - alpha*dL\n", "            theta = theta + alpha*dL\n")),
    m('C18', 'rg_project_unnormalised_average', (FG, "            if terminate: return ans * (self.total / ans.sum())", "            if terminate: return ans")),
    m('C18', 'local_total_floor_dropped', (LI, "                total = max(1, estimate)", "                total = estimate")),
    # ---- C19 ------------------------------------------------------------
    m('C19', 'revert_F13_log_centering', (PI, "        logQ -= logQ.max() # keeps the normalisation below accurate when the entries are huge\n", "")),
    m('C19', 'acceptance_inverted', (PI, "        if loss - new_loss >= 0.5*alpha*dL.dot(P-Q):", "        if loss - new_loss <= 0.5*alpha*dL.dot(P-Q):")),
    m('C19', 'logq_not_renormalised', (PI, "        logQ += np.log(total) - logsumexp(logQ)\n", "")),
    m('C19', 'weights_not_exponentiated', (PI, "    return np.exp(logP)\n", "    return logP\n")),
    m('C19', 'accepts_any_step_after_first_reject', (PI, "        if loss - new_loss >= 0.5*alpha*dL.dot(P-Q):", "        if begun or loss - new_loss >= 0.5*alpha*dL.dot(P-Q):")),
    m('C19', 'public_rows_sorted', (PI, "        return Dataset(self.public_data.df, self.public_data.domain, self.weights)", "        return Dataset(self.public_data.df.sort_values(list(self.public_data.domain.attrs)).reset_index(drop=True), self.public_data.domain, self.weights)")),
    # ---- C05 ------------------------------------------------------------
    m('C05', 'revert_F6_mwem_bounded_selection', (MWEM, "        ax = worst_approximated(workload_answers, est, candidates, exp_eps, bounded=bounded)", "        ax = worst_approximated(workload_answers, est, candidates, exp_eps)")),
    m('C05', 'mst_sigma_from_full_rho', (MST, "    sigma = np.sqrt(3/(2*rho))", "    sigma = np.sqrt(1/(2*rho))")),
    m('C05', 'mst_select_gets_full_rho', (MST, "    cliques = select(data, rho/3.0, log1)", "    cliques = select(data, rho, log1)")),
    m('C05', 'mst_em_coef_one', (MST, "    coef = 1.0 if monotonic else 0.5\n    scores = coef*eps/sensitivity*q", "    coef = 1.0\n    scores = coef*eps/sensitivity*q")),
    m('C05', 'mwem_marginal_sensitivity_dropped', (MWEM, "        marginal_sensitivity = np.sqrt(2) if bounded else 1.0", "        marginal_sensitivity = 1.0")),
    m('C05', 'aim_ledger_forgets_selection', (AIM, "            rho_used += 1.0/8 * epsilon**2 + 0.5/sigma**2", "            rho_used += 0.5/sigma**2")),
    m('C05', 'aim_initial_measurements_not_charged', (AIM, "        rho_used = len(oneway)*0.5/sigma**2", "        rho_used = 0.5/sigma**2")),
    m('C05', 'adagrid_step3_sigma_without_count', (AG, "    step3_sigma = np.sqrt(len(step2_queries)) * np.sqrt(0.5 / rho_step_3)", "    step3_sigma = np.sqrt(0.5 / rho_step_3)")),
    m('C05', 'adagrid_select_eps_per_edge', (AG, "    epsilon = np.sqrt(8 * rho / (r - 1))", "    epsilon = np.sqrt(8 * rho)")),
    m('C05', 'mwem_laplace_eps_not_split', (MWEM, "        eps_per_round = epsilon / rounds", "        eps_per_round = epsilon / max(1, rounds - 1)")),
    # ---- C06 ------------------------------------------------------------
    m('C06', 'mwem_total_from_data', (MWEM, "    total = data.records if bounded else None", "    total = data.records")),
    m('C06', 'mst_threshold_on_true_count', (MST, "    for Q, y, sigma, proj in measurements:\n        col = proj[0]\n        sup = y >= 3*sigma", "    for Q, y, sigma, proj in measurements:\n        col = proj[0]\n        sup = (y >= 3*sigma) | (data.project(proj).datavector() > 0)")),
    m('C06', 'aim_engine_gets_true_answers', (AIM, "            y = x + self.gaussian_noise(sigma, n)\n            measurements.append((Q, y, sigma, cl))", "            y = x + self.gaussian_noise(sigma, n)\n            measurements.append((Q, x, sigma, cl))")),
    m('C06', 'aim_sigma_depends_on_records', (AIM, "        sigma = np.sqrt(rounds / (2*0.9*self.rho))", "        sigma = np.sqrt(rounds / (2*0.9*self.rho)) * (1 + 1e-3*(data.records % 2))")),
    m('C06', 'adagrid_plausibility_from_truth', (AG, "                domain.project(cl), est >= step1_sigma * threshold", "                domain.project(cl), (est >= step1_sigma * threshold) | (Q1.T @ (Q1 @ mu) > 0)")),
    m('C06', 'mst_candidates_filtered_by_true_weight_gt1', (MST, "        candidates = [e for e in candidates if not ds.connected(*e)]\n        wgts", "        candidates = [e for e in candidates if not ds.connected(*e)]\n        candidates = [e for e in candidates if weights[e] > 1.0] or candidates\n        wgts")),
    m('C06', 'mwem_rounds_from_records', (MWEM, "    if rounds is None:\n        rounds = len(data.domain)", "    if rounds is None:\n        rounds = len(data.domain) + (1 if data.records > 100 else 0)")),
    m('C06', 'synth_rows_from_true_count', (MST, "    synth = est.synthetic_data()", "    synth = est.synthetic_data(rows=data.records)")),
    m('C18', 'revert_F14_factorgraph_duplicate_cliques', (FG, "        self.cliques = list(dict.fromkeys(cliques)) # a repeated clique is still one factor", "        self.cliques = cliques")),
    m('C18', 'revert_F15_restart_cap', (LI, "                if t <= 50 and restarts < 100: # an uptick that the step size does not cause must not restart for ever", "                if t <= 50:")),
    m('C08', 'revert_F16_md_early_stop', (INF, "            if stalled >= 20: break\n", "")),
]


def all_mutants():
    out = list(MUTANTS)
    for d in sorted(glob.glob(os.path.join(VERIF, 'seeded', '*'))):
        meta = os.path.join(d, 'meta.json')
        patch = os.path.join(d, 'patch.diff')
        if os.path.exists(meta) and os.path.exists(patch):
            with open(meta) as f:
                j = json.load(f)
            out.append(dict(prop=j['property'], name='seeded/' + os.path.basename(d), patch=patch))
    return out
