"""Small realistic mutations used to validate the checks (tools/selfval.py).
Each is a textual replacement against the current /repo tree."""
import glob
import json
import os

HERE = os.path.dirname(os.path.abspath(__file__))
VERIF = os.path.dirname(HERE)
ALL_PROPS = ['C%02d' % i for i in range(1, 21)]

GM = 'src/mbi/graphical_model.py'
JT = 'src/mbi/junction_tree.py'
FA = 'src/mbi/factor.py'
CV = 'src/mbi/clique_vector.py'
INF = 'src/mbi/inference.py'
DS = 'src/mbi/dataset.py'
DO = 'src/mbi/domain.py'
RG = 'src/mbi/region_graph.py'
FG = 'src/mbi/factor_graph.py'
LI = 'src/mbi/local_inference.py'
PI = 'src/mbi/public_inference.py'
MECH = 'mechanisms/mechanism.py'
CDP = 'mechanisms/cdp2adp.py'
MST = 'mechanisms/mst.py'
AIM = 'mechanisms/aim.py'
MWEM = 'mechanisms/mwem+pgm.py'
AG = 'mechanisms/adaptive_grid.py'


def m(prop, name, *edits):
    return dict(prop=prop, name=name, edits=[tuple(e) for e in edits])


MUTANTS = [
    # ---- C01 ------------------------------------------------------------
    m('C01', 'bp_no_reverse_division', (GM, "                tau = beliefs[i] - messages[(j,i)]", "                tau = beliefs[i]")),
    m('C01', 'sub_no_inf_guard', (FA, "np.where(other.values==-np.inf, 0, -other.values)", "-other.values")),
    m('C01', 'min_weight_spanning_tree', (JT, "complete.add_edge(c1, c2, weight=-wgt)", "complete.add_edge(c1, c2, weight=wgt)")),
    m('C01', 'mp_order_sorted_not_topological', (JT, "return list(nx.topological_sort(G)) ", "return sorted(G.nodes()) ")),
    m('C01', 'bp_forgets_total', (GM, "            beliefs[cl] += np.log(self.total) - logZ\n", "            beliefs[cl] += - logZ\n")),
    m('C01', 'no_fill_in_edges', (JT, "            edges |= tmp\n", "            pass\n")),
    m('C01', 'separator_from_first_two', (JT, "return { (i,j) : tuple(set(i)&set(j)) for i,j in self.mp_order() }",
                                          "return { (i,j) : tuple(set(i)&set(j))[:2] for i,j in self.mp_order() }")),
    # ---- C02 ------------------------------------------------------------
    m('C02', 'project_cached_in_clique_order', (GM, "                    return self.marginals[cl].project(attrs)", "                    return self.marginals[cl].project(self.domain.canonical(attrs))")),
    m('C02', 'krondot_forgets_total', (GM, "return result.datavector(flatten=False) * self.total / np.exp(logZ)", "return result.datavector(flatten=False) / np.exp(logZ)")),
    m('C02', 'many_marginals_sum_over_wrong_set', (GM, "                S = set(Cl) - set(Ci) - set(Cj)", "                S = set(Cl) - set(Ci)")),
    m('C02', 'many_marginals_answers_uncanonical', (GM, "                    answers[proj] = results[attr].project(proj)", "                    answers[proj] = results[attr].project(self.domain.canonical(proj))")),
    m('C02', 've_logspace_forgets_total', (GM, "    return (ans - ans.logsumexp() + np.log(total)).exp()", "    return (ans - ans.logsumexp()).exp()")),
    # ---- C14 ------------------------------------------------------------
    m('C14', 'revert_F0_logaddexp', (FA, "        factor2 = other.expand(newdom)\n        return Factor(newdom, np.logaddexp", "        factor2 = self.expand(newdom)\n        return Factor(newdom, np.logaddexp")),
    m('C14', 'expand_moveaxis_swapped', (FA, "        ax = domain.axes(self.domain.attrs)\n        values = np.moveaxis(values, range(len(ax)), ax)", "        ax = domain.axes(self.domain.attrs)\n        values = np.moveaxis(values, ax, range(len(ax)))")),
    m('C14', 'transpose_moveaxis_swapped', (FA, "        ax = newdom.axes(self.domain.attrs)\n        values = np.moveaxis(self.values, range(len(ax)), ax)", "        ax = newdom.axes(self.domain.attrs)\n        values = np.moveaxis(self.values, ax, range(len(ax)))")),
    m('C14', 'project_no_transpose', (FA, "        return ans.transpose(attrs)", "        return ans")),
    m('C14', 'combine_proper_subset_only', (CV, "                if set(cl) <= set(cl2):", "                if set(cl) < set(cl2):")),
    m('C14', 'combine_no_break', (CV, "                    self[cl2] += other[cl]\n                    break", "                    self[cl2] += other[cl]")),
    m('C14', 'div_zero_cells_not_cleared', (FA, "        vals[tmp.values<=0] = 0.0\n", "")),
    m('C14', 'imul_adds', (FA, "        factor2 = other.expand(self.domain)\n        self.values *= factor2.values", "        factor2 = other.expand(self.domain)\n        self.values += factor2.values")),
    m('C14', 'condition_positional', (FA, "        slices = [evidence[a] if a in evidence else slice(None) for a in self.domain]", "        slices = list(evidence.values()) + [slice(None)]*(len(self.domain)-len(evidence))")),
    m('C14', 'copy_out_aliases', (FA, "            return Factor(self.domain, self.values.copy())", "            return Factor(self.domain, self.values)")),
    m('C14', 'cv_sub_wrong_sign', (CV, "        return self + -1*other", "        return -1*self + other")),
    # ---- C15 ------------------------------------------------------------
    m('C15', 'project_drops_weights', (DS, "        return Dataset(data, domain, self.weights)", "        return Dataset(data, domain)")),
    m('C15', 'df_not_reordered', (DS, "        self.df = df.loc[:,domain.attrs]", "        self.df = df[[c for c in df.columns if c in domain.attrs]]")),
    m('C15', 'canonical_keeps_given_order', (DO, "        return tuple(a for a in self.attrs if a in attrs)", "        return tuple(a for a in attrs if a in self.attrs)")),
    m('C15', 'merge_puts_new_first', (DO, "        return Domain(self.attrs + extra.attrs, self.shape + extra.shape)", "        return Domain(extra.attrs + self.attrs, extra.shape + self.shape)")),
    m('C15', 'sort_size_descending', (DO, "            attrs = sorted(self.attrs, key=self.size)", "            attrs = sorted(self.attrs, key=self.size, reverse=True)")),
    m('C15', 'marginalize_sorted', (DO, "        proj = [a for a in self.attrs if not a in attrs]", "        proj = sorted(a for a in self.attrs if not a in attrs)")),
    m('C15', 'datavector_ignores_weights', (DS, "        ans = np.histogramdd(self.df.values, bins, weights=self.weights)[0]", "        ans = np.histogramdd(self.df.values, bins)[0]")),
    # ---- C12 ------------------------------------------------------------
    m('C12', 'no_fill_in_edges', (JT, "            edges |= tmp\n", "            pass\n")),
    m('C12', 'min_weight_spanning_tree', (JT, "complete.add_edge(c1, c2, weight=-wgt)", "complete.add_edge(c1, c2, weight=wgt)")),
    m('C12', 'mp_order_no_backflow_exclusion', (JT, "                if m1[1] == m2[0] and m1[0] != m2[1]:", "                if m1[1] == m2[0]:")),
    m('C12', 'mp_order_dependency_reversed', (JT, "                    edges.add( (m1, m2) )", "                    edges.add( (m2, m1) )")),
    m('C12', 'fill_in_added_after_removal', (JT, "            G.add_edges_from(tmp)\n            G.remove_node(node)", "            G.remove_node(node)")),
    m('C12', 'tree_skips_zero_weight_edges', (JT, "            wgt = len(set(c1) & set(c2))\n            complete.add_edge(c1, c2, weight=-wgt)", "            wgt = len(set(c1) & set(c2))\n            if wgt > 0: complete.add_edge(c1, c2, weight=-wgt)")),
    m('C12', 'separator_one_sided', (JT, "return { (i,j) : tuple(set(i)&set(j)) for i,j in self.mp_order() }", "return { (i,j) : tuple(set(i)&set(j)) for i,j in self.tree.edges() }")),
]


def all_mutants():
    out = list(MUTANTS)
    for d in sorted(glob.glob(os.path.join(VERIF, 'seeded', '*'))):
        meta = os.path.join(d, 'meta.json')
        patch = os.path.join(d, 'patch.diff')
        if os.path.exists(meta) and os.path.exists(patch):
            with open(meta) as f:
                j = json.load(f)
            out.append(dict(prop=j['property'], name='seeded/' + os.path.basename(d), patch=patch))
    return out
