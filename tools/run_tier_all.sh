#!/bin/bash
# Runs one tier of every check in sequence and prints one summary line per check.
# usage: tools/run_tier_all.sh [quick|thorough] [seed] [ids...]
cd "$(dirname "$0")/.." || exit 2
TIER=${1:-quick}; SEED=${2:-0}; shift 2
IDS=${@:-C01 C02 C03 C04 C05 C06 C07 C08 C09 C10 C11 C12 C13 C14 C15 C16 C17 C18 C19 C20}
for p in $IDS; do
  start=$(date +%s)
  out=$(./check $p --tier $TIER --seed $SEED --no-evidence 2>&1); rc=$?
  echo "$p tier=$TIER seed=$SEED rc=$rc $(( $(date +%s) - start ))s :: $(echo "$out" | grep -v '^KNOWN' | head -1 | cut -c1-260)"
  echo "$out" | grep -E "^(VIOLATION|INCONCLUSIVE|  )" | head -8
done
