#!/venv/bin/python
"""Markdown tables for DESIGN.md: seeded changes (seeded/*/meta.json) and the self-validation run (--selfval json)."""
import glob
import json
import os
import sys

VERIF = os.path.dirname(os.path.dirname(os.path.abspath(__file__)))


def seeds():
    print('| seeded change | property | what it needs to manifest | owning quick check |')
    print('|---|---|---|---|')
    for d in sorted(glob.glob(os.path.join(VERIF, 'seeded', '*'))):
        m = json.load(open(os.path.join(d, 'meta.json')))
        r = m['check_results'][m['property']]
        verdict = {0: 'MISSED', 1: 'caught (%d VIOLATION)' % r['violations'], 2: 'inconclusive'}.get(r['exit'], str(r['exit']))
        print('| %s | %s | %s | %s |' % (os.path.basename(d), m['property'], (m.get('needs_to_manifest') or '').replace('|', '/'), verdict))


def selfval(path):
    rows = json.load(open(path))
    by = {}
    for r in rows:
        by.setdefault(r['prop'], []).append(r)
    print('| property | mutants (tools/mutants.py + seeded/) | caught by the owning quick check | repository tests still pass | not caught |')
    print('|---|---|---|---|---|')
    for p in sorted(by):
        rs = [r for r in by[p] if r.get('check') == p]
        caught = [r for r in rs if r.get('rc') == 1]
        tp = [r for r in rs if r.get('tests_pass')]
        missed = [r['name'] for r in rs if r.get('rc') != 1]
        print('| %s | %d | %d | %d | %s |' % (p, len(rs), len(caught), len(tp), ', '.join(missed) or '-'))


if __name__ == '__main__':
    if len(sys.argv) > 2 and sys.argv[1] == '--selfval':
        selfval(sys.argv[2])
    else:
        seeds()
