#!/bin/bash
# usage: tools/sweep_quick.sh seed [seed...]  - every quick check for each seed, one line per run
cd "$(dirname "$0")/.." || exit 2
for s in "$@"; do tools/run_tier_all.sh quick $s; done
